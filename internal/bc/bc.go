// Package bc is an independent reader/writer and structural verifier for the
// bcl bytecode format version 1.1, written from the format comment in prog.go
// and the sqlite4 varint document. It shares no code with /repo.
package bc

import (
	"encoding/binary"
	"errors"
	"fmt"
	"math"
)

// ---------------------------------------------------------------- varint

// PutUvarint appends the sqlite4 varint of x.
func PutUvarint(dst []byte, x uint64) []byte {
	switch {
	case x <= 240:
		return append(dst, byte(x))
	case x <= 2287:
		x -= 240
		return append(dst, byte(x/256+241), byte(x%256))
	case x <= 67823:
		x -= 2288
		return append(dst, 249, byte(x/256), byte(x%256))
	}
	n := 3
	for n < 8 && x >= 1<<(8*uint(n)) {
		n++
	}
	dst = append(dst, byte(250+n-3))
	for i := n - 1; i >= 0; i-- {
		dst = append(dst, byte(x>>(8*uint(i))))
	}
	return dst
}

// Uvarint decodes one varint; n == 0 means the input is too short.
func Uvarint(p []byte) (x uint64, n int) {
	if len(p) == 0 {
		return 0, 0
	}
	a0 := p[0]
	switch {
	case a0 <= 240:
		return uint64(a0), 1
	case a0 <= 248:
		if len(p) < 2 {
			return 0, 0
		}
		return 240 + 256*uint64(a0-241) + uint64(p[1]), 2
	case a0 == 249:
		if len(p) < 3 {
			return 0, 0
		}
		return 2288 + 256*uint64(p[1]) + uint64(p[2]), 3
	}
	k := int(a0) - 250 + 3
	if len(p) < 1+k {
		return 0, 0
	}
	for i := 0; i < k; i++ {
		x = x<<8 | uint64(p[1+i])
	}
	return x, 1 + k
}

// UvarintLen gives the length of the shortest encoding.
func UvarintLen(x uint64) int { return len(PutUvarint(nil, x)) }

// ---------------------------------------------------------------- file

type File struct {
	Major, Minor byte
	Name         string
	Code         []byte
	Constants    []any // nil, int, float64, string, bool
	Positions    []int
	LineFeeds    []int
}

const (
	TypeNil = iota
	TypeInt
	TypeFloat
	TypeStr
	TypeBool
)

func Encode(f *File) []byte {
	b := []byte{0xFC, 0x6C, f.Major, f.Minor}
	b = PutUvarint(b, uint64(len(f.Name)))
	b = append(b, f.Name...)
	b = PutUvarint(b, uint64(len(f.Code)))
	b = append(b, f.Code...)
	b = PutUvarint(b, uint64(len(f.Constants)))
	for _, c := range f.Constants {
		switch v := c.(type) {
		case nil:
			b = append(b, TypeNil)
		case int:
			b = append(b, TypeInt)
			b = PutUvarint(b, uint64(int64(v)))
		case float64:
			b = append(b, TypeFloat)
			b = binary.BigEndian.AppendUint64(b, math.Float64bits(v))
		case string:
			b = append(b, TypeStr)
			b = PutUvarint(b, uint64(len(v)))
			b = append(b, v...)
		case bool:
			b = append(b, TypeBool)
			if v {
				b = append(b, 1)
			} else {
				b = append(b, 0)
			}
		default:
			panic(fmt.Sprintf("bc.Encode: unsupported constant %T", c))
		}
	}
	b = PutUvarint(b, uint64(len(f.Positions)))
	for _, x := range f.Positions {
		b = PutUvarint(b, uint64(x))
	}
	b = PutUvarint(b, uint64(len(f.LineFeeds)))
	for _, x := range f.LineFeeds {
		b = PutUvarint(b, uint64(x))
	}
	return b
}

var ErrShort = errors.New("short input")

type reader struct {
	p   []byte
	off int
}

func (r *reader) uv(what string) (uint64, error) {
	x, n := Uvarint(r.p[r.off:])
	if n == 0 {
		return 0, fmt.Errorf("%s at offset %d: %w", what, r.off, ErrShort)
	}
	if n != UvarintLen(x) {
		return 0, fmt.Errorf("%s at offset %d: varint not in shortest form", what, r.off)
	}
	r.off += n
	return x, nil
}

func (r *reader) bytes(n uint64, what string) ([]byte, error) {
	if uint64(len(r.p)-r.off) < n {
		return nil, fmt.Errorf("%s at offset %d: need %d bytes: %w", what, r.off, n, ErrShort)
	}
	b := r.p[r.off : r.off+int(n)]
	r.off += int(n)
	return b, nil
}

// Decode parses a dump strictly: every section present, shortest varints,
// known type codes, nothing after the line table.
func Decode(p []byte) (*File, error) {
	if len(p) < 4 {
		return nil, fmt.Errorf("header: %w", ErrShort)
	}
	if p[0] != 0xFC || p[1] != 0x6C {
		return nil, fmt.Errorf("bad magic % x", p[:2])
	}
	f := &File{Major: p[2], Minor: p[3]}
	r := &reader{p: p, off: 4}
	n, err := r.uv("name length")
	if err != nil {
		return nil, err
	}
	b, err := r.bytes(n, "name")
	if err != nil {
		return nil, err
	}
	f.Name = string(b)
	n, err = r.uv("code length")
	if err != nil {
		return nil, err
	}
	b, err = r.bytes(n, "code")
	if err != nil {
		return nil, err
	}
	f.Code = append([]byte(nil), b...)
	n, err = r.uv("constants count")
	if err != nil {
		return nil, err
	}
	if n > uint64(len(p)) {
		return nil, fmt.Errorf("constants count %d exceeds the file", n)
	}
	f.Constants = make([]any, 0, n)
	for i := uint64(0); i < n; i++ {
		tb, err := r.bytes(1, "constant type")
		if err != nil {
			return nil, err
		}
		switch tb[0] {
		case TypeNil:
			f.Constants = append(f.Constants, nil)
		case TypeInt:
			x, err := r.uv("int constant")
			if err != nil {
				return nil, err
			}
			f.Constants = append(f.Constants, int(int64(x)))
		case TypeFloat:
			b, err := r.bytes(8, "float constant")
			if err != nil {
				return nil, err
			}
			f.Constants = append(f.Constants, math.Float64frombits(binary.BigEndian.Uint64(b)))
		case TypeStr:
			k, err := r.uv("string constant length")
			if err != nil {
				return nil, err
			}
			b, err := r.bytes(k, "string constant")
			if err != nil {
				return nil, err
			}
			f.Constants = append(f.Constants, string(b))
		case TypeBool:
			b, err := r.bytes(1, "bool constant")
			if err != nil {
				return nil, err
			}
			if b[0] > 1 {
				return nil, fmt.Errorf("bool constant byte %d", b[0])
			}
			f.Constants = append(f.Constants, b[0] == 1)
		default:
			return nil, fmt.Errorf("constant %d: unknown type code %d", i, tb[0])
		}
	}
	n, err = r.uv("positions count")
	if err != nil {
		return nil, err
	}
	if n > uint64(len(p)) {
		return nil, fmt.Errorf("positions count %d exceeds the file", n)
	}
	f.Positions = make([]int, 0, n)
	for i := uint64(0); i < n; i++ {
		x, err := r.uv("position")
		if err != nil {
			return nil, err
		}
		f.Positions = append(f.Positions, int(x))
	}
	n, err = r.uv("line table count")
	if err != nil {
		return nil, err
	}
	if n > uint64(len(p)) {
		return nil, fmt.Errorf("line table count %d exceeds the file", n)
	}
	f.LineFeeds = make([]int, 0, n)
	for i := uint64(0); i < n; i++ {
		x, err := r.uv("line feed offset")
		if err != nil {
			return nil, err
		}
		f.LineFeeds = append(f.LineFeeds, int(x))
	}
	if r.off != len(p) {
		return nil, fmt.Errorf("%d trailing bytes after the line table", len(p)-r.off)
	}
	return f, nil
}

// ---------------------------------------------------------------- opcodes

const (
	NOP = iota
	RET
	PRINT
	SETLOCAL
	GETLOCAL
	DEFBLOCK
	ENDBLOCK
	SETFIELD
	GETFIELD
	CONST
	NIL
	ZERO
	ONE
	TRUE
	FALSE
	NOT
	EQ
	LT
	GT
	ADD
	SUB
	MUL
	DIV
	NEG
	UNPLUS
	JUMP
	LOOP
	JFALSE
	POP
	POPN
	BIND
	NumOps
)

var OpNames = [NumOps]string{"NOP", "RET", "PRINT", "SETLOCAL", "GETLOCAL", "DEFBLOCK", "ENDBLOCK", "SETFIELD", "GETFIELD", "CONST",
	"NIL", "ZERO", "ONE", "TRUE", "FALSE", "NOT", "EQ", "LT", "GT", "ADD", "SUB", "MUL", "DIV", "NEG", "UNPLUS", "JUMP", "LOOP", "JFALSE", "POP", "POPN", "BIND"}

// operand shapes
const (
	shNone = iota
	shU    // one uvarint
	shUU   // two uvarints
	shJ    // 16-bit big-endian jump distance
	shUB   // uvarint + one byte
)

var shape = [NumOps]int{
	SETLOCAL: shU, GETLOCAL: shU, DEFBLOCK: shUU, SETFIELD: shU, GETFIELD: shU, CONST: shU,
	JUMP: shJ, LOOP: shJ, JFALSE: shJ, POPN: shU, BIND: shUB,
}

type Instr struct {
	Off, Len int
	Op       byte
	A, B     int // operands (B: second uvarint, or the bind byte)
	Target   int // jump target for JUMP/LOOP/JFALSE
}

// Decode instructions; they must tile the code exactly.
func Instructions(code []byte) ([]Instr, error) {
	var out []Instr
	for off := 0; off < len(code); {
		op := code[off]
		if int(op) >= NumOps {
			return out, fmt.Errorf("offset %d: unknown opcode %d", off, op)
		}
		in := Instr{Off: off, Op: op}
		p := off + 1
		uv := func() (int, error) {
			x, n := Uvarint(code[p:])
			if n == 0 {
				return 0, fmt.Errorf("offset %d: %s operand runs past the end of the code", off, OpNames[op])
			}
			if n != UvarintLen(x) {
				return 0, fmt.Errorf("offset %d: operand varint not shortest", off)
			}
			p += n
			if x > math.MaxInt32 {
				return 0, fmt.Errorf("offset %d: operand %d too large", off, x)
			}
			return int(x), nil
		}
		var err error
		switch shape[op] {
		case shU:
			in.A, err = uv()
		case shUU:
			if in.A, err = uv(); err == nil {
				in.B, err = uv()
			}
		case shUB:
			if in.A, err = uv(); err == nil {
				if p >= len(code) {
					err = fmt.Errorf("offset %d: BIND byte runs past the end", off)
				} else {
					in.B = int(code[p])
					p++
				}
			}
		case shJ:
			if p+2 > len(code) {
				err = fmt.Errorf("offset %d: jump operand runs past the end", off)
			} else {
				in.A = int(code[p])<<8 | int(code[p+1])
				p += 2
				if op == LOOP {
					in.Target = p - in.A
				} else {
					in.Target = p + in.A
				}
			}
		}
		if err != nil {
			return out, err
		}
		in.Len = p - off
		out = append(out, in)
		off = p
	}
	return out, nil
}

// Static facts computed by Verify, per instruction offset.
type Static struct {
	Instrs   []Instr
	Index    map[int]int // offset -> index in Instrs
	Depth    map[int]int // operand-stack depth on entry
	BDepth   map[int]int // block depth on entry
	Jumps    int
	MaxDepth int
}

const (
	StackSize      = 1024
	BlockStackSize = 16
)

// pops/pushes: need = minimal depth, delta = change.
func effect(in Instr) (need, delta int) {
	switch in.Op {
	case CONST, NIL, ZERO, ONE, TRUE, FALSE, GETLOCAL, GETFIELD:
		return 0, +1
	case EQ, LT, GT, ADD, SUB, MUL, DIV:
		return 2, -1
	case PRINT, POP:
		return 1, -1
	case POPN:
		return in.A, -in.A
	case NOT, NEG, UNPLUS, JFALSE, SETLOCAL, SETFIELD:
		return 1, 0
	}
	return 0, 0
}

// Verify checks the structural well-formedness claimed by property C10.
// allowLimits: depth beyond the VM's stack size is not a structural error
// (the VM reports it at run time), it is only recorded in MaxDepth.
func Verify(f *File) (*Static, error) {
	ins, err := Instructions(f.Code)
	if err != nil {
		return nil, err
	}
	if len(ins) == 0 {
		return nil, fmt.Errorf("empty code")
	}
	st := &Static{Instrs: ins, Index: map[int]int{}, Depth: map[int]int{}, BDepth: map[int]int{}}
	for i, in := range ins {
		st.Index[in.Off] = i
	}
	if last := ins[len(ins)-1]; last.Op != RET {
		return st, fmt.Errorf("last instruction is %s, not RET", OpNames[last.Op])
	}
	isStr := func(idx int) bool {
		if idx < 0 || idx >= len(f.Constants) {
			return false
		}
		_, ok := f.Constants[idx].(string)
		return ok
	}
	for i, in := range ins {
		switch in.Op {
		case RET:
			if i != len(ins)-1 {
				return st, fmt.Errorf("offset %d: RET before the end", in.Off)
			}
		case CONST:
			if in.A >= len(f.Constants) {
				return st, fmt.Errorf("offset %d: CONST %d out of range (%d constants)", in.Off, in.A, len(f.Constants))
			}
		case GETFIELD, SETFIELD:
			if !isStr(in.A) {
				return st, fmt.Errorf("offset %d: %s operand %d is not a string constant", in.Off, OpNames[in.Op], in.A)
			}
		case DEFBLOCK:
			if !isStr(in.A) || !isStr(in.B) {
				return st, fmt.Errorf("offset %d: DEFBLOCK operands %d,%d are not string constants", in.Off, in.A, in.B)
			}
		case BIND:
			if !isStr(in.A) {
				return st, fmt.Errorf("offset %d: BIND operand %d is not a string constant", in.Off, in.A)
			}
			tgt, sel := in.B>>4, in.B&0x0F
			if !(tgt == 1 || tgt == 2) || !(sel == 1 || sel == 2 || sel == 3 || sel == 15) || (sel == 15 && tgt != 2) {
				return st, fmt.Errorf("offset %d: invalid BIND byte 0x%02X", in.Off, in.B)
			}
		case JUMP, JFALSE, LOOP:
			st.Jumps++
			if _, ok := st.Index[in.Target]; !ok {
				return st, fmt.Errorf("offset %d: %s target %d is not an instruction boundary inside the code", in.Off, OpNames[in.Op], in.Target)
			}
		}
	}
	// dataflow
	type item struct{ idx, d, b int }
	work := []item{{0, 0, 0}}
	seen := map[int]bool{}
	for len(work) > 0 {
		it := work[len(work)-1]
		work = work[:len(work)-1]
		in := ins[it.idx]
		if seen[in.Off] {
			if st.Depth[in.Off] != it.d {
				return st, fmt.Errorf("offset %d (%s): operand depth %d on one path and %d on another", in.Off, OpNames[in.Op], st.Depth[in.Off], it.d)
			}
			if st.BDepth[in.Off] != it.b {
				return st, fmt.Errorf("offset %d (%s): block depth %d on one path and %d on another", in.Off, OpNames[in.Op], st.BDepth[in.Off], it.b)
			}
			continue
		}
		seen[in.Off] = true
		st.Depth[in.Off] = it.d
		st.BDepth[in.Off] = it.b
		if it.d > st.MaxDepth {
			st.MaxDepth = it.d
		}
		need, delta := effect(in)
		if it.d < need {
			return st, fmt.Errorf("offset %d: %s needs %d operands, depth is %d", in.Off, OpNames[in.Op], need, it.d)
		}
		switch in.Op {
		case GETLOCAL:
			if in.A >= it.d {
				return st, fmt.Errorf("offset %d: GETLOCAL slot %d not live (depth %d)", in.Off, in.A, it.d)
			}
		case SETLOCAL:
			if in.A >= it.d-1 && in.A >= it.d {
				return st, fmt.Errorf("offset %d: SETLOCAL slot %d not live (depth %d)", in.Off, in.A, it.d)
			}
		case GETFIELD, SETFIELD:
			if it.b < 1 {
				return st, fmt.Errorf("offset %d: %s outside any block", in.Off, OpNames[in.Op])
			}
		}
		d2, b2 := it.d+delta, it.b
		switch in.Op {
		case DEFBLOCK:
			b2++
		case ENDBLOCK:
			if it.b < 1 {
				return st, fmt.Errorf("offset %d: ENDBLOCK without open block", in.Off)
			}
			b2--
		case RET:
			if it.d != 0 {
				return st, fmt.Errorf("offset %d: RET with operand depth %d", in.Off, it.d)
			}
			if it.b != 0 {
				return st, fmt.Errorf("offset %d: RET with %d open blocks", in.Off, it.b)
			}
			continue
		}
		if d2 < 0 {
			return st, fmt.Errorf("offset %d: negative depth", in.Off)
		}
		switch in.Op {
		case JUMP, LOOP:
			work = append(work, item{st.Index[in.Target], d2, b2})
		case JFALSE:
			work = append(work, item{st.Index[in.Target], d2, b2})
			work = append(work, item{it.idx + 1, d2, b2})
		default:
			work = append(work, item{it.idx + 1, d2, b2})
		}
	}
	for _, in := range ins {
		if !seen[in.Off] {
			return st, fmt.Errorf("offset %d: %s is unreachable", in.Off, OpNames[in.Op])
		}
	}
	return st, nil
}

// EqualConst compares constants bit-exactly.
func EqualConst(a, b any) bool {
	switch x := a.(type) {
	case float64:
		y, ok := b.(float64)
		return ok && math.Float64bits(x) == math.Float64bits(y)
	case nil:
		return b == nil
	default:
		if _, isF := b.(float64); isF {
			return false
		}
		return a == b
	}
}
