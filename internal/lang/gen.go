package lang

import (
	"fmt"
	"math"
	"math/rand"
	"strconv"
	"strings"
	"unicode/utf8"
)

// ------------------------------------------------------------ literal spellings

var intPool = []int{0, 1, 2, 3, 7, 8, 10, 15, 16, 63, 64, 100, 255, 256, 1000, 4096, 65535, 65536,
	1 << 31, 1<<31 - 1, 1 << 32, 1<<53 - 1, 1 << 53, 1<<53 + 1, math.MaxInt64, math.MaxInt64 - 1, 1 << 62}

func mixCase(r *rand.Rand, s string) string {
	b := []byte(s)
	for i, c := range b {
		if c >= 'a' && c <= 'f' && r.Intn(2) == 0 {
			b[i] = c - 32
		}
	}
	return string(b)
}

// GenIntLit spells a non-negative int in one of the admitted forms.
func GenIntLit(r *rand.Rand) *Literal {
	var v int
	if r.Intn(3) == 0 {
		v = r.Intn(50)
	} else {
		v = intPool[r.Intn(len(intPool))]
	}
	return SpellInt(r, v)
}

func SpellInt(r *rand.Rand, v int) *Literal {
	var text string
	switch r.Intn(6) {
	case 0:
		text = "0x" + mixCase(r, strconv.FormatInt(int64(v), 16))
	case 1:
		text = "0X" + strings.Repeat("0", r.Intn(3)) + mixCase(r, strconv.FormatInt(int64(v), 16))
	case 2:
		text = "0" + strings.Repeat("0", r.Intn(2)) + strconv.FormatInt(int64(v), 8)
	default:
		text = strconv.Itoa(v)
	}
	return &Literal{Kind: LInt, Text: text, Val: v}
}

var floatSpellings = []string{"0.0", "0.5", "1.0", "1.5", "2.5", "3.0", "00.25", "1e3", "1E3", "1e+3", "1.5e-3", "2.5E+2", "0.1", "0.2", "0.3",
	"10.0", "100.125", "1e0", "0e0", "007.5", "1.7976931348623157e308", "4.9e-324", "2.2250738585072014e-308", "1e21", "1e20", "123456789.125",
	"9007199254740993.0", "0.000001", "1e-5", "1e6", "999999.5", "3.141592653589793", "1e300", "1e-300", "9223372036854775807.0", "9223372036854775808.0", "1e15"}

func GenFloatLit(r *rand.Rand) *Literal {
	var text string
	if r.Intn(8) == 0 {
		// long plain notation: many digits before the dot, many zeros behind it, long digit runs, with or without an exponent
		digits := func(n int) string {
			var b strings.Builder
			for i := 0; i < n; i++ {
				b.WriteByte(byte('0' + r.Intn(10)))
			}
			return b.String()
		}
		switch r.Intn(4) {
		case 0:
			text = "0." + strings.Repeat("0", r.Intn(70)) + digits(1+r.Intn(18))
		case 1:
			text = digits(1+r.Intn(3)) + "." + strings.Repeat("0", r.Intn(40)) + digits(1+r.Intn(25))
		case 2:
			text = digits(1+r.Intn(40)) + "." + digits(1+r.Intn(3))
		default:
			text = digits(1+r.Intn(20)) + "." + digits(1+r.Intn(30)) + "e" + []string{"", "+", "-"}[r.Intn(3)] + strconv.Itoa(r.Intn(300))
		}
		if v, err := strconv.ParseFloat(text, 64); err != nil || math.IsInf(v, 0) {
			text = "0." + strings.Repeat("0", 22+r.Intn(20)) + "1"
		}
	} else if r.Intn(3) == 0 {
		// random spelling
		text = strconv.Itoa(r.Intn(1000))
		if r.Intn(2) == 0 {
			text = strings.Repeat("0", r.Intn(2)) + text
		}
		frac := r.Intn(3) > 0
		if frac {
			text += "." + fmt.Sprintf("%0*d", 1+r.Intn(4), r.Intn(10000))
		}
		if !frac || r.Intn(3) == 0 {
			text += string("eE"[r.Intn(2)]) + []string{"", "+", "-"}[r.Intn(3)] + strconv.Itoa(r.Intn(20))
		}
	} else {
		text = floatSpellings[r.Intn(len(floatSpellings))]
	}
	v, err := strconv.ParseFloat(text, 64)
	if err != nil {
		panic("GenFloatLit: " + text)
	}
	return &Literal{Kind: LFloat, Text: text, Val: v}
}

var strPieces = []string{"TYPE", "NAME", "", "a", "ab", "x", "hello", " ", "  ", "\t", "#", ";", "(", ")", "{", "}", "é", "漢字", "😀", "\u0085", "\u00a0", "\r", "\v", "\f",
	"\"", "\\", "\n", "'", "=", "# not a comment", "var", "0", "1", "-1", "1.5", "true", "nil", "\x00", "\x7f", "%d", "%s", "\ufffd", "\ufeff", "\u2028"}

// GenStrValue draws a string value (valid UTF-8).
func GenStrValue(r *rand.Rand) string {
	n := r.Intn(4)
	var b strings.Builder
	for i := 0; i < n; i++ {
		b.WriteString(strPieces[r.Intn(len(strPieces))])
	}
	return b.String()
}

// SpellStr spells a string value with a random mix of raw characters and
// every valid escape form. hostile=false uses the minimal escapes only.
func SpellStr(r *rand.Rand, s string, hostile bool) *Literal {
	if !hostile {
		return StrLit(s)
	}
	var b strings.Builder
	b.WriteByte('"')
	for i := 0; i < len(s); {
		c := s[i]
		rn, w := utf8.DecodeRuneInString(s[i:])
		mustEscape := c == '"' || c == '\\' || c == '\n'
		if rn == utf8.RuneError && w == 1 {
			// raw invalid byte: only spellable as \x or octal
			if r.Intn(2) == 0 {
				fmt.Fprintf(&b, `\x%02x`, c)
			} else {
				fmt.Fprintf(&b, `\%03o`, c)
			}
			i++
			continue
		}
		if !mustEscape && r.Intn(3) > 0 {
			b.WriteString(s[i : i+w])
			i += w
			continue
		}
		named := map[byte]string{'\a': `\a`, '\b': `\b`, '\f': `\f`, '\n': `\n`, '\r': `\r`, '\t': `\t`, '\v': `\v`, '\\': `\\`, '"': `\"`}
		switch k := r.Intn(5); {
		case k == 0 && named[c] != "" && w == 1:
			b.WriteString(named[c])
		case k == 1 || (k == 0 && w == 1):
			for j := 0; j < w; j++ {
				fmt.Fprintf(&b, mixCase(r, `\x%02x`), s[i+j])
			}
		case k == 2:
			for j := 0; j < w; j++ {
				fmt.Fprintf(&b, `\%03o`, s[i+j])
			}
		case k == 3 && rn <= 0xFFFF:
			fmt.Fprintf(&b, `\u%04x`, rn)
		default:
			fmt.Fprintf(&b, `\U%08x`, rn)
		}
		i += w
	}
	b.WriteByte('"')
	text := b.String()
	return &Literal{Kind: LStr, Text: text, Val: s}
}

// ------------------------------------------------------------ program generator

type Kind int

const (
	KAny Kind = iota
	KInt
	KFloat
	KNum
	KStr
	KBool
	KNil
)

type GenCfg struct {
	MaxStmts                                int // toplevel statements
	MaxBody                                 int // statements per block body
	ExprDepth                               int
	MaxNest                                 int      // block nesting
	Names                                   []string // variable / field names
	Types                                   []string // block types
	BlockNames                              []string // block names ("" = unnamed)
	ErrPct                                  int      // percent of deliberately unchecked (possibly failing) expressions
	ParenPct                                int      // percent chance of a redundant parenthesis per node
	AssignPct                               int      // percent chance of an embedded assignment where an operand is generated
	HostileLits                             bool     // hostile literal spellings
	WVar, WPrint, WEval, WExpr, WDef, WBind int
	CompileErrPct                           int  // percent of programs with an injected static compile error
	PreDecl                                 bool // start with one variable of every type
	BadLitPct                               int  // percent of int literals spelled without a value (2^63, 08, 0x): the program must be rejected
	Fillers                                 int  // declare this many extra variables first (more than 128 / 240 live locals)
	BadNamePct                              int  // percent of block names spelled with an invalid escape: the program must be rejected
	ShadowBias                              bool // prefer re-using names (shadowing, var x = x+1)
}

type Gen struct {
	R   *rand.Rand
	Cfg GenCfg
	M   *Machine
	// observations
	OpPairs map[string]bool
	Shapes  map[string]int
	nest    int // syntactic block depth of the statement being generated (the machine may be dead)
}

func NewGen(r *rand.Rand, cfg GenCfg) *Gen {
	return &Gen{R: r, Cfg: cfg, M: NewMachine(), OpPairs: map[string]bool{}, Shapes: map[string]int{}}
}

func kindOf(v any) Kind {
	switch v.(type) {
	case int:
		return KInt
	case float64:
		return KFloat
	case string:
		return KStr
	case bool:
		return KBool
	case nil:
		return KNil
	}
	return KAny
}

func kindMatches(v any, want Kind) bool {
	k := kindOf(v)
	switch want {
	case KAny:
		return k != KAny
	case KNum:
		return k == KInt || k == KFloat
	}
	return k == want
}

func (g *Gen) pick(ss []string) string { return ss[g.R.Intn(len(ss))] }

func (g *Gen) literal(want Kind) *Expr {
	r := g.R
	if want == KAny {
		want = []Kind{KInt, KInt, KFloat, KStr, KStr, KBool, KNil}[r.Intn(7)]
	}
	if want == KNum {
		want = []Kind{KInt, KFloat}[r.Intn(2)]
	}
	switch want {
	case KInt:
		if g.Cfg.BadLitPct > 0 && r.Intn(100) < g.Cfg.BadLitPct {
			t := []string{"9223372036854775808", "08", "0x", "9223372036854775808", "0x8000000000000000", "099", "0xffffffffffffffff", "0XFFFFFFFFFFFFFFFFFF",
				"18446744073709551616", "01777777777777777777777", "0x10000000000000000", "99999999999999999999999999999999999999"}[r.Intn(12)]
			g.Shapes["inject:badliteral"]++
			return Lit(&Literal{Kind: LInt, Text: t, Bad: true, Val: 0})
		}
		if g.Cfg.HostileLits {
			return Lit(GenIntLit(r))
		}
		return Lit(IntLit([]int{0, 1, 2, 3, 5, 7, 10, 42, 100}[r.Intn(9)]))
	case KFloat:
		if g.Cfg.HostileLits {
			return Lit(GenFloatLit(r))
		}
		t := []string{"0.0", "0.5", "1.5", "2.0", "2.5", "10.25"}[r.Intn(6)]
		v, _ := strconv.ParseFloat(t, 64)
		return Lit(&Literal{Kind: LFloat, Text: t, Val: v})
	case KStr:
		if g.Cfg.HostileLits {
			return Lit(SpellStr(r, GenStrValue(r), true))
		}
		return Lit(StrLit([]string{"", "a", "ab", "xyz", "hello world", "é", "1.5", "2.5", "TYPE", "NAME"}[r.Intn(10)]))
	case KBool:
		return Lit(BoolLit(r.Intn(2) == 0))
	}
	return Lit(NilLit())
}

// operand candidates among identifiers currently holding a value of the kind
func (g *Gen) identOfKind(want Kind) (string, bool) {
	var cands []string
	for _, n := range g.M.VisibleVars() {
		if v, _ := g.M.LookupVar(n); kindMatches(v, want) {
			cands = append(cands, n)
		}
	}
	if g.nest > 0 {
		for _, n := range g.M.FieldsVisible() {
			if _, isVar := g.M.LookupVar(n); isVar {
				continue
			}
			if v, ok := g.M.LookupField(n); ok && kindMatches(v, want) {
				cands = append(cands, n)
			}
		}
		if want == KStr || want == KAny {
			cands = append(cands, "TYPE", "NAME")
		}
	}
	if len(cands) == 0 {
		return "", false
	}
	return cands[g.R.Intn(len(cands))], true
}

func (g *Gen) maybeParen(e *Expr) *Expr {
	if g.Cfg.ParenPct > 0 && g.R.Intn(100) < g.Cfg.ParenPct {
		return Paren(e)
	}
	return e
}

func (g *Gen) assignTarget() (string, bool) {
	vis := g.M.VisibleVars()
	if g.nest > 0 {
		// inside a block any name is assignable (variable or field)
		if len(vis) == 0 || g.R.Intn(2) == 0 {
			return g.pick(g.Cfg.Names), true
		}
	}
	if len(vis) == 0 {
		return "", false
	}
	return vis[g.R.Intn(len(vis))], true
}

var arith = []string{"+", "-", "*", "/"}
var cmps = []string{"<", "<=", ">", ">="}
var eqs = []string{"==", "!="}
var allBin = []string{"+", "-", "*", "/", "<", "<=", ">", ">=", "==", "!="}

// Expr generates an expression intended to have the wanted kind (the caller
// verifies by evaluation).
func (g *Gen) Expr(d int, want Kind) *Expr {
	return g.maybeParen(g.expr(d, want))
}

func (g *Gen) expr(d int, want Kind) *Expr {
	r := g.R
	if d <= 0 || r.Intn(5) == 0 {
		if r.Intn(5) < 3 {
			if n, ok := g.identOfKind(want); ok {
				return Id(n)
			}
		}
		return g.literal(want)
	}
	if g.Cfg.AssignPct > 0 && r.Intn(100) < g.Cfg.AssignPct {
		if n, ok := g.assignTarget(); ok {
			return Paren(Assign(n, g.Expr(d-1, want)))
		}
	}
	if want == KAny {
		want = []Kind{KInt, KInt, KFloat, KStr, KBool, KBool, KNum}[r.Intn(7)]
	}
	sub := func(k Kind) *Expr { return g.Expr(d-1, k) }
	// short-circuit forms yield one of their operands
	if r.Intn(6) == 0 {
		other := []Kind{want, KAny, KBool, KNil}[r.Intn(4)]
		if r.Intn(2) == 0 {
			return And(sub(other), sub(want))
		}
		return Or(sub(other), sub(want))
	}
	switch want {
	case KInt:
		switch r.Intn(8) {
		case 0:
			return Un("-", sub(KInt))
		case 1:
			return Un("+", sub(KInt))
		default:
			return Bin(arith[r.Intn(4)], sub(KInt), sub(KInt))
		}
	case KFloat, KNum:
		switch r.Intn(8) {
		case 0:
			return Un("-", sub(KFloat))
		case 1:
			return Un("+", sub(KFloat))
		}
		a, b := KFloat, KNum
		if r.Intn(2) == 0 {
			a, b = b, a
		}
		if want == KNum && r.Intn(2) == 0 {
			a, b = KInt, KInt
		}
		return Bin(arith[r.Intn(4)], sub(a), sub(b))
	case KStr:
		if r.Intn(4) == 0 {
			return Bin("*", sub(KStr), Lit(IntLit(r.Intn(4))))
		}
		return Bin("+", sub(KStr), sub([]Kind{KStr, KStr, KInt, KFloat, KNil}[r.Intn(5)]))
	case KBool:
		switch r.Intn(6) {
		case 0:
			return Un("not", sub(KAny))
		case 1:
			return Bin(cmps[r.Intn(4)], sub(KStr), sub(KStr))
		case 2, 3:
			return Bin(cmps[r.Intn(4)], sub(KNum), sub(KNum))
		default:
			return Bin(eqs[r.Intn(2)], sub(KAny), sub(KAny))
		}
	}
	return g.literal(want)
}

// wild generates an expression without regard to types.
func (g *Gen) wild(d int) *Expr {
	r := g.R
	if d <= 0 || r.Intn(4) == 0 {
		if r.Intn(4) == 0 {
			if g.nest > 0 {
				return Id(g.pick(g.Cfg.Names))
			}
			if v := g.M.VisibleVars(); len(v) > 0 {
				return Id(v[r.Intn(len(v))])
			}
		}
		return g.literal(KAny)
	}
	var e *Expr
	switch r.Intn(12) {
	case 0:
		e = Un([]string{"-", "+", "not"}[r.Intn(3)], g.wild(d-1))
	case 1:
		e = And(g.wild(d-1), g.wild(d-1))
	case 2:
		e = Or(g.wild(d-1), g.wild(d-1))
	case 3:
		if n, ok := g.assignTarget(); ok {
			e = Paren(Assign(n, g.wild(d-1)))
		} else {
			e = g.literal(KAny)
		}
	default:
		e = Bin(allBin[r.Intn(len(allBin))], g.wild(d-1), g.wild(d-1))
	}
	return g.maybeParen(e)
}

// StmtExpr generates the expression of a statement: mostly one that
// evaluates without error on the current state, sometimes a wild one.
func (g *Gen) StmtExpr(want Kind) *Expr {
	d := 1 + g.R.Intn(max(1, g.Cfg.ExprDepth))
	if g.R.Intn(100) < g.Cfg.ErrPct {
		for try := 0; try < 4; try++ {
			e := g.wild(d)
			if res := g.M.TryExpr(e); !(res.Abort && strings.HasPrefix(res.Unspec, "repeat")) {
				return e
			}
		}
		return g.literal(want)
	}
	for try := 0; try < 6; try++ {
		e := g.Expr(d, want)
		if g.R.Intn(4) == 0 {
			if n, ok := g.assignTarget(); ok {
				e = Assign(n, e)
			}
		}
		res := g.M.TryExpr(e)
		if res.Err == nil && res.Unspec == "" {
			return e
		}
		if d > 1 {
			d--
		}
	}
	return g.literal(want)
}

func (g *Gen) recordPairs(e *Expr, parent string, side string) {
	if e == nil {
		return
	}
	me := ""
	switch e.Kind {
	case EUnary, EBinary:
		me = e.Op
	case EAnd:
		me = "and"
	case EOr:
		me = "or"
	case EAssign:
		me = "="
	case EParen:
		g.recordPairs(e.L, parent, side+"()")
		return
	}
	if me != "" && parent != "" {
		g.OpPairs[parent+side+me] = true
	}
	if me != "" {
		g.recordPairs(e.L, me, "L")
		g.recordPairs(e.R, me, "R")
	}
}

func (g *Gen) weightPick(inBlock bool) SKind {
	c := g.Cfg
	w := []int{c.WVar, c.WPrint, c.WEval, 0, c.WDef, c.WBind}
	if inBlock {
		w[3] = c.WExpr
		w[5] = (c.WBind + 3) / 4
	}
	if g.nest >= c.MaxNest {
		w[4] = 0
	}
	tot := 0
	for _, x := range w {
		tot += x
	}
	if tot == 0 {
		return SPrint
	}
	k := g.R.Intn(tot)
	for i, x := range w {
		if k < x {
			return SKind(i)
		}
		k -= x
	}
	return SPrint
}

// Stmt generates one statement and executes it on the machine.
func (g *Gen) Stmt() *Stmt {
	r := g.R
	inBlock := g.nest > 0
	var s *Stmt
	switch g.weightPick(inBlock) {
	case SVar:
		var name string
		for try := 0; try < 8; try++ {
			name = g.pick(g.Cfg.Names)
			if !g.M.DeclaredHere(name) {
				break
			}
			name = ""
		}
		if name == "" {
			return g.simplePrint()
		}
		s = &Stmt{Kind: SVar, Name: name}
		if r.Intn(5) > 0 {
			if g.Cfg.ShadowBias {
				if v, ok := g.M.LookupVar(name); ok && r.Intn(2) == 0 {
					// initializer reads the outer variable of the same name
					switch v.(type) {
					case int:
						s.E = Bin("+", Id(name), Lit(IntLit(1)))
					case string:
						s.E = Bin("+", Id(name), Lit(StrLit("'")))
					default:
						s.E = Id(name)
					}
				}
			}
			if s.E == nil {
				s.E = g.StmtExpr(KAny)
			}
		}
	case SPrint:
		s = &Stmt{Kind: SPrint, E: g.StmtExpr(KAny)}
	case SEval:
		s = &Stmt{Kind: SEval, E: g.StmtExpr(KAny)}
	case SExpr:
		// a bare expression in a block: mostly a field/variable assignment
		var e *Expr
		if r.Intn(6) > 0 {
			name := g.pick(g.Cfg.Names)
			e = Assign(name, g.StmtExpr(KAny))
			if e.R.Kind == EAssign && r.Intn(2) == 0 {
				e = Assign(name, e.R.R)
			}
		} else {
			e = g.StmtExpr(KAny)
		}
		s = &Stmt{Kind: SExpr, E: e}
		// a bare expression starting with + or - would merge with the
		// previous statement: the generator never starts one with a sign
		if t := FlattenExpr(e); len(t) > 0 && (t[0].Text == "-" || t[0].Text == "+") {
			s.E = Paren(e)
		}
	case SDef:
		s = &Stmt{Kind: SDef, Name: g.pick(g.Cfg.Types)}
		if bn := g.pick(g.Cfg.BlockNames); bn != "" || r.Intn(8) == 0 {
			s.BlockName = SpellStr(r, bn, g.Cfg.HostileLits)
		}
		if g.Cfg.BadNamePct > 0 && r.Intn(100) < g.Cfg.BadNamePct {
			s.BlockName = &Literal{Kind: LStr, Text: []string{`"\q"`, `"a\x1"`, `"\'"`, `"web\qserver"`}[r.Intn(4)], Bad: true, Val: ""}
			g.Shapes["inject:badname"]++
		}
		g.M.OpenBlock(s)
		g.nest++
		n := r.Intn(g.Cfg.MaxBody + 1)
		for i := 0; i < n && !g.M.Dead(); i++ {
			s.Body = append(s.Body, g.Stmt())
		}
		g.nest--
		g.M.CloseBlock(s)
		g.semi(s)
		return s
	case SBind:
		s = &Stmt{Kind: SBind, Name: g.pick(g.Cfg.Types)}
		s.Sel = []string{"", "", "1", "first", "last", "all"}[r.Intn(6)]
		s.Target = []string{"struct", "slice"}[r.Intn(2)]
		if s.Sel == "all" {
			s.Target = "slice"
		}
	}
	g.semi(s)
	g.M.Exec(s)
	return s
}

func (g *Gen) semi(s *Stmt) {
	if g.R.Intn(4) == 0 {
		s.Semi = true
	}
}

func (g *Gen) simplePrint() *Stmt {
	s := &Stmt{Kind: SPrint, E: g.StmtExpr(KAny)}
	g.semi(s)
	g.M.Exec(s)
	return s
}

// Program generates a whole program, executing it on g.M as it goes.
func (g *Gen) Program() *Program {
	p := &Program{}
	r := g.R
	if g.Cfg.PreDecl {
		pre := []struct {
			n string
			k Kind
		}{{"vi", KInt}, {"vf", KFloat}, {"vs", KStr}, {"vb", KBool}, {"vn", KNil}}
		for _, d := range pre {
			s := &Stmt{Kind: SVar, Name: d.n, E: g.literal(d.k)}
			if d.k == KNil && r.Intn(2) == 0 {
				s.E = nil
			}
			g.M.Exec(s)
			p.Stmts = append(p.Stmts, s)
		}
	}
	for k := 0; k < g.Cfg.Fillers; k++ {
		s := &Stmt{Kind: SVar, Name: fmt.Sprintf("w%d", k), E: Lit(IntLit(k % 9))}
		g.M.Exec(s)
		p.Stmts = append(p.Stmts, s)
	}
	n := 1 + r.Intn(max(1, g.Cfg.MaxStmts))
	for i := 0; i < n; i++ {
		if g.M.Dead() {
			// after the failing statement the machine's scope information is stale: only
			// statements that need none are added (they must not be executed)
			for k := r.Intn(3); k > 0; k-- {
				if r.Intn(2) == 0 {
					p.Stmts = append(p.Stmts, &Stmt{Kind: SPrint, E: Bin("+", g.literal(KInt), g.literal(KInt))})
				} else {
					p.Stmts = append(p.Stmts, &Stmt{Kind: SDef, Name: g.pick(g.Cfg.Types), Body: []*Stmt{{Kind: SExpr, E: Assign("after", g.literal(KAny))}}})
				}
			}
			break
		}
		if g.M.Tainted() && r.Intn(3) > 0 {
			break
		}
		p.Stmts = append(p.Stmts, g.Stmt())
	}
	for _, s := range p.Stmts {
		g.recordStmt(s)
	}
	if g.Cfg.CompileErrPct > 0 && r.Intn(100) < g.Cfg.CompileErrPct {
		g.injectCompileError(p)
	}
	return p
}

func (g *Gen) recordStmt(s *Stmt) {
	if s.E != nil {
		g.recordPairs(s.E, "", "")
	}
	for _, c := range s.Body {
		g.recordStmt(c)
	}
}

// injectCompileError adds a static error at toplevel: a duplicate declaration
// or a use of an undeclared name.
func (g *Gen) injectCompileError(p *Program) {
	r := g.R
	var declared []string
	for _, s := range p.Stmts {
		if s.Kind == SVar {
			declared = append(declared, s.Name)
		}
	}
	pos := r.Intn(len(p.Stmts) + 1)
	var s *Stmt
	if len(declared) > 0 && r.Intn(2) == 0 {
		// duplicate: must come after the first declaration of that name
		name := declared[r.Intn(len(declared))]
		for i, st := range p.Stmts {
			if st.Kind == SVar && st.Name == name && pos <= i {
				pos = i + 1
			}
		}
		s = &Stmt{Kind: SVar, Name: name, E: Lit(IntLit(1))}
		g.Shapes["inject:duplicate"]++
	} else {
		s = &Stmt{Kind: SPrint, E: Bin("+", Lit(IntLit(1)), Id("undeclared_"+g.pick(g.Cfg.Names)))}
		g.Shapes["inject:undefined"]++
	}
	p.Stmts = append(p.Stmts[:pos], append([]*Stmt{s}, p.Stmts[pos:]...)...)
}

// ------------------------------------------------------------ profiles

var DefaultNames = []string{"a", "b", "c", "x", "y"}

func CfgExpr() GenCfg {
	return GenCfg{MaxStmts: 6, MaxBody: 4, ExprDepth: 5, MaxNest: 2, Names: []string{"a", "b", "c", "vi", "vf", "vs", "vb", "vn"},
		Types: []string{"blk", "t"}, BlockNames: []string{"", "n1", "1.5", "0.5"}, ErrPct: 12, ParenPct: 12, AssignPct: 6, HostileLits: true,
		WVar: 2, WPrint: 6, WEval: 1, WExpr: 5, WDef: 2, WBind: 0, PreDecl: true}
}

// LongNames: identifiers around the 64-byte and 255-byte marks.
var LongNames = []string{"n" + strings.Repeat("x", 62), "n" + strings.Repeat("y", 63), "n" + strings.Repeat("z", 64), "_u", "_" + strings.Repeat("q", 99), "m" + strings.Repeat("k", 255)}

func CfgScope() GenCfg {
	return GenCfg{MaxStmts: 14, MaxBody: 7, ExprDepth: 3, MaxNest: 5, Names: []string{"x", "y", "z", "w"},
		Types: []string{"b", "c"}, BlockNames: []string{"", "", "n", "2.5", "1.5"}, ErrPct: 6, ParenPct: 5, AssignPct: 15,
		WVar: 7, WPrint: 5, WEval: 3, WExpr: 5, WDef: 4, WBind: 0, CompileErrPct: 6, ShadowBias: true}
}

func CfgBlocks() GenCfg {
	return GenCfg{MaxStmts: 9, MaxBody: 6, ExprDepth: 2, MaxNest: 4, Names: []string{"f", "g", "h", "TYPE", "NAME", "blk", "sub"},
		Types: []string{"blk", "sub", "srv", "f"}, BlockNames: []string{"", "", "a", "b", "x y", "q\"uo", "é", "1.5", "2.5", "a.", "x.y.", "b", "0.5", ".", "NAME", "TYPE"}, ErrPct: 4, ParenPct: 3, AssignPct: 4,
		HostileLits: true, WVar: 2, WPrint: 1, WEval: 1, WExpr: 8, WDef: 6, WBind: 0}
}

func CfgBind() GenCfg {
	c := CfgBlocks()
	c.Types = []string{"blk", "srv", "sub"}
	c.MaxStmts = 10
	c.MaxNest = 2
	c.WBind = 5
	c.WDef = 8
	c.WExpr = 4
	c.ErrPct = 2
	return c
}
