package lang

import (
	"strconv"
)

type VKind int

const (
	Accept VKind = iota
	Reject
	Gray // inside the unspecified zone of DESIGN §5.3: no verdict
)

func (k VKind) String() string { return [...]string{"accept", "reject", "gray"}[k] }

type Verdict struct {
	Kind    VKind
	At      int    // index of the first non-viable token; len(toks) means "at end"
	Why     string // class of the rejection
	LexFail bool   // the non-viable token is one the lexer fails on
}

const MaxLocals = 1024

type parser struct {
	toks    []Tok
	i       int
	scopes  []map[string]bool
	live    int
	gray    bool
	failAt  int
	failWhy string
}

type parseFail struct{}

func (r *parser) cur() *Tok {
	if r.i < len(r.toks) {
		return &r.toks[r.i]
	}
	return nil
}

func (r *parser) die(why string) {
	r.failAt = r.i
	r.failWhy = why
	panic(parseFail{})
}

func (r *parser) isP(s string) bool {
	t := r.cur()
	return t != nil && t.Kind == TPunct && t.Text == s
}

func (r *parser) isKw(s string) bool {
	t := r.cur()
	return t != nil && t.Kind == TWord && t.Text == s
}

func (r *parser) isIdent() bool {
	t := r.cur()
	return t != nil && t.Kind == TWord && !Keywords[t.Text]
}

func (r *parser) visible(n string) bool {
	for i := len(r.scopes) - 1; i >= 0; i-- {
		if r.scopes[i][n] {
			return true
		}
	}
	return false
}

// Parse recognizes a token sequence by the strict grammar of DESIGN §5.2 with
// its static rules, and builds the AST. For Reject, At is the first
// non-viable token. The AST is complete only for Accept.
func Parse(toks []Tok) (prog *Program, v Verdict) {
	r := &parser{toks: toks, scopes: []map[string]bool{{}}}
	prog = &Program{}
	defer func() {
		if e := recover(); e != nil {
			if _, ok := e.(parseFail); !ok {
				panic(e)
			}
			v = Verdict{Kind: Reject, At: r.failAt, Why: r.failWhy}
			if r.failAt < len(toks) && toks[r.failAt].Kind == TBad {
				v.LexFail = true
			}
			if r.gray {
				v.Kind = Gray
			}
		}
	}()
	for r.cur() != nil {
		s := r.decl()
		prog.Stmts = append(prog.Stmts, s)
		if r.isP(";") {
			s.Semi = true
			r.i++
		}
	}
	if r.gray {
		return prog, Verdict{Kind: Gray, At: -1}
	}
	return prog, Verdict{Kind: Accept, At: -1}
}

func (r *parser) decl() *Stmt {
	if r.isKw("var") {
		s := &Stmt{Kind: SVar, First: r.i}
		r.i++
		if !r.isIdent() {
			r.die("expected variable name")
		}
		name := r.cur().Text
		s.Name, s.NameTok = name, r.i
		if r.scopes[len(r.scopes)-1][name] {
			r.die("duplicate variable")
		}
		if r.live >= MaxLocals {
			r.die("too many locals")
		}
		r.i++
		s.Last = r.i - 1
		if r.isP("=") {
			r.i++
			s.E = r.expr()
			s.Last = s.E.Last
		}
		r.scopes[len(r.scopes)-1][name] = true
		r.live++
		return s
	}
	return r.stmt()
}

func (r *parser) stmt() *Stmt {
	switch {
	case r.isKw("print"), r.isKw("eval"):
		s := &Stmt{Kind: SPrint, First: r.i}
		if r.isKw("eval") {
			s.Kind = SEval
		}
		r.i++
		s.E = r.expr()
		s.Last = s.E.Last
		return s
	case r.isKw("def"):
		s := &Stmt{Kind: SDef, First: r.i}
		r.i++
		if !r.isIdent() {
			r.die("expected block type")
		}
		s.Name, s.NameTok = r.cur().Text, r.i
		r.i++
		if t := r.cur(); t != nil && t.Kind == TStr {
			v, err := strconv.Unquote(t.Text)
			if err != nil {
				r.die("invalid string literal")
			}
			s.BlockName = &Literal{Kind: LStr, Text: t.Text, Val: v}
			r.i++
		}
		if !r.isP("{") {
			r.die("expected '{'")
		}
		r.i++
		r.scopes = append(r.scopes, map[string]bool{})
		for !r.isP("}") {
			if r.cur() == nil {
				r.die("expected '}'")
			}
			c := r.decl()
			s.Body = append(s.Body, c)
			if r.isP(";") {
				c.Semi = true
				r.i++
			}
		}
		s.CloseTok = r.i
		s.Last = r.i
		r.i++
		r.live -= len(r.scopes[len(r.scopes)-1])
		r.scopes = r.scopes[:len(r.scopes)-1]
		return s
	case r.isKw("bind"):
		s := &Stmt{Kind: SBind, First: r.i}
		r.i++
		if !r.isIdent() {
			r.die("expected block type")
		}
		s.Name, s.NameTok = r.cur().Text, r.i
		r.i++
		if r.isP(":") {
			r.i++
			t := r.cur()
			switch {
			case t != nil && t.Kind == TInt && t.Text == "1":
				s.Sel = "1"
			case r.isIdent() && (t.Text == "first" || t.Text == "last" || t.Text == "all"):
				s.Sel = t.Text
			default:
				r.die("expected selector")
			}
			r.i++
		}
		if !r.isP("->") {
			r.die("expected '->'")
		}
		r.i++
		if !r.isIdent() {
			r.die("expected bind target")
		}
		switch t := r.cur().Text; t {
		case "struct":
			if s.Sel == "all" {
				r.die("all needs slice")
			}
			s.Target = t
		case "slice":
			s.Target = t
		default:
			r.die("expected bind target")
		}
		s.TargetTok = r.i
		s.Last = r.i
		r.i++
		return s
	case len(r.scopes) > 1:
		s := &Stmt{Kind: SExpr, First: r.i}
		s.E = r.expr()
		s.Last = s.E.Last
		return s
	}
	r.die("expected statement")
	return nil
}

func (r *parser) expr() *Expr {
	if r.isIdent() && r.i+1 < len(r.toks) && r.toks[r.i+1].Kind == TPunct && r.toks[r.i+1].Text == "=" {
		e := &Expr{Kind: EAssign, Name: r.cur().Text, First: r.i}
		r.identCheck()
		r.i += 2
		e.R = r.expr()
		e.Last = e.R.Last
		return e
	}
	return r.or()
}

func (r *parser) identCheck() {
	if len(r.scopes) == 1 && !r.visible(r.cur().Text) {
		r.die("undefined variable")
	}
}

func (r *parser) or() *Expr {
	l := r.and()
	if r.isKw("or") {
		r.i++
		rr := r.or()
		return &Expr{Kind: EOr, L: l, R: rr, First: l.First, Last: rr.Last}
	}
	return l
}

func (r *parser) and() *Expr {
	l := r.not()
	if r.isKw("and") {
		r.i++
		rr := r.and()
		return &Expr{Kind: EAnd, L: l, R: rr, First: l.First, Last: rr.Last}
	}
	return l
}

func (r *parser) not() *Expr {
	if r.isKw("not") {
		first := r.i
		r.i++
		x := r.not()
		return &Expr{Kind: EUnary, Op: "not", L: x, First: first, Last: x.Last}
	}
	return r.eq()
}

func (r *parser) binLevel(next func() *Expr, ops ...string) *Expr {
	l := next()
	for {
		t := r.cur()
		if t == nil || t.Kind != TPunct {
			return l
		}
		found := false
		for _, o := range ops {
			if t.Text == o {
				found = true
			}
		}
		if !found {
			return l
		}
		r.i++
		rr := next()
		l = &Expr{Kind: EBinary, Op: t.Text, L: l, R: rr, First: l.First, Last: rr.Last}
	}
}

func (r *parser) eq() *Expr     { return r.binLevel(r.cmp, "==", "!=") }
func (r *parser) cmp() *Expr    { return r.binLevel(r.term, "<", "<=", ">", ">=") }
func (r *parser) term() *Expr   { return r.binLevel(r.factor, "+", "-") }
func (r *parser) factor() *Expr { return r.binLevel(r.unary, "*", "/") }

func (r *parser) unary() *Expr {
	if r.isP("-") || r.isP("+") {
		first := r.i
		op := r.cur().Text
		r.i++
		x := r.unary()
		return &Expr{Kind: EUnary, Op: op, L: x, First: first, Last: x.Last}
	}
	return r.primary()
}

// ParseLiteral gives the value of a literal token, or ok=false when the
// spelling is lexically a literal but denotes no value.
func ParseLiteral(t Tok) (l *Literal, ok bool) {
	switch t.Kind {
	case TInt:
		v, err := strconv.ParseInt(t.Text, 0, 64)
		if err != nil {
			return &Literal{Kind: LInt, Text: t.Text, Bad: true}, false
		}
		return &Literal{Kind: LInt, Text: t.Text, Val: int(v)}, true
	case TFloat:
		v, err := strconv.ParseFloat(t.Text, 64)
		if err != nil {
			return &Literal{Kind: LFloat, Text: t.Text, Bad: true}, false
		}
		return &Literal{Kind: LFloat, Text: t.Text, Val: v}, true
	case TStr:
		v, err := strconv.Unquote(t.Text)
		if err != nil {
			return &Literal{Kind: LStr, Text: t.Text, Bad: true}, false
		}
		return &Literal{Kind: LStr, Text: t.Text, Val: v}, true
	case TWord:
		switch t.Text {
		case "true":
			return &Literal{Kind: LTrue, Text: t.Text, Val: true}, true
		case "false":
			return &Literal{Kind: LFalse, Text: t.Text, Val: false}, true
		case "nil":
			return &Literal{Kind: LNil, Text: t.Text, Val: nil}, true
		}
	}
	return nil, false
}

func (r *parser) primary() *Expr {
	t := r.cur()
	if t == nil {
		r.die("expected expression")
	}
	switch {
	case t.Kind == TInt || t.Kind == TFloat || t.Kind == TStr || (t.Kind == TWord && (t.Text == "true" || t.Text == "false" || t.Text == "nil")):
		l, ok := ParseLiteral(*t)
		if !ok {
			r.die("invalid literal")
		}
		e := &Expr{Kind: ELit, Lit: l, First: r.i, Last: r.i}
		r.i++
		return e
	case r.isIdent():
		r.identCheck()
		e := &Expr{Kind: EIdent, Name: t.Text, First: r.i, Last: r.i}
		r.i++
		return e
	case r.isP("("):
		first := r.i
		r.i++
		x := r.expr()
		if !r.isP(")") {
			r.die("expected ')'")
		}
		e := &Expr{Kind: EParen, L: x, First: first, Last: r.i}
		r.i++
		return e
	case r.isKw("not"):
		// the implementation's Pratt parser takes a prefix 'not' wherever an
		// operand may start; the strict grammar does not: unspecified zone.
		r.gray = true
		return r.not()
	}
	r.die("expected expression")
	return nil
}
