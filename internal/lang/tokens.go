package lang

import (
	"math/rand"
	"strings"
)

type TKind int

const (
	TWord  TKind = iota // identifier or keyword
	TInt                // integer literal spelling (may be invalid: 08, 0x)
	TFloat              // float literal spelling
	TStr                // string literal spelling (may hold an invalid escape)
	TPunct              // operator / punctuation
	TBad                // text on which the lexer fails; ends the parse
)

type Tok struct {
	Kind TKind
	Text string
	// FailAt: for TBad, the number of bytes of Text the lexer has consumed
	// when it reports the failure (the diagnostic points there).
	FailAt int
	// ToEOL: an unterminated string; the lexer reads on to the end of the
	// line, so Layout ends the line right after it (or it is the last token).
	ToEOL bool
}

var Keywords = map[string]bool{"var": true, "def": true, "eval": true, "print": true, "bind": true,
	"true": true, "false": true, "nil": true, "not": true, "and": true, "or": true}

func W(s string) Tok { return Tok{Kind: TWord, Text: s} }
func P(s string) Tok { return Tok{Kind: TPunct, Text: s} }

func litTok(l *Literal) Tok {
	switch l.Kind {
	case LInt:
		return Tok{Kind: TInt, Text: l.Text}
	case LFloat:
		return Tok{Kind: TFloat, Text: l.Text}
	case LStr:
		return Tok{Kind: TStr, Text: l.Text}
	}
	return W(l.Text)
}

// Flatten renders the program as a token list with the minimal parentheses
// the precedence table requires (explicit EParen nodes are kept).
func Flatten(p *Program) []Tok {
	f := &flattener{}
	for _, s := range p.Stmts {
		f.stmt(s)
	}
	return f.out
}

// FlattenExpr renders one expression.
func FlattenExpr(e *Expr) []Tok {
	f := &flattener{}
	f.expr(e)
	return f.out
}

type flattener struct{ out []Tok }

func (f *flattener) emit(t ...Tok) { f.out = append(f.out, t...) }

func (f *flattener) stmt(s *Stmt) {
	switch s.Kind {
	case SVar:
		f.emit(W("var"), W(s.Name))
		if s.E != nil {
			f.emit(P("="))
			f.expr(s.E)
		}
	case SPrint:
		f.emit(W("print"))
		f.expr(s.E)
	case SEval:
		f.emit(W("eval"))
		f.expr(s.E)
	case SExpr:
		f.expr(s.E)
	case SDef:
		f.emit(W("def"), W(s.Name))
		if s.BlockName != nil {
			f.emit(litTok(s.BlockName))
		}
		f.emit(P("{"))
		for _, c := range s.Body {
			f.stmt(c)
		}
		f.emit(P("}"))
	case SBind:
		f.emit(W("bind"), W(s.Name))
		if s.Sel != "" {
			f.emit(P(":"))
			switch c := s.Sel[0]; {
			case c >= '0' && c <= '9' && strings.ContainsAny(s.Sel, ".e") && !strings.HasPrefix(s.Sel, "0x"):
				f.emit(Tok{Kind: TFloat, Text: s.Sel})
			case c >= '0' && c <= '9':
				f.emit(Tok{Kind: TInt, Text: s.Sel})
			case c == '"':
				f.emit(Tok{Kind: TStr, Text: s.Sel})
			default:
				f.emit(W(s.Sel))
			}
		}
		f.emit(P("->"), W(s.Target))
	}
	if s.Semi {
		f.emit(P(";"))
	}
}

func (f *flattener) child(c *Expr, parens bool) {
	if parens && c.Kind != EParen {
		f.emit(P("("))
		f.expr(c)
		f.emit(P(")"))
		return
	}
	f.expr(c)
}

func (f *flattener) expr(e *Expr) {
	p := prec(e)
	switch e.Kind {
	case ELit:
		f.emit(litTok(e.Lit))
	case EIdent:
		f.emit(W(e.Name))
	case EParen:
		f.emit(P("("))
		f.expr(e.L)
		f.emit(P(")"))
	case EUnary:
		if e.Op == "not" {
			f.emit(W("not"))
		} else {
			f.emit(P(e.Op))
		}
		f.child(e.L, prec(e.L) < p)
	case EBinary:
		f.child(e.L, prec(e.L) < p)
		f.emit(P(e.Op))
		f.child(e.R, prec(e.R) <= p)
	case EAnd, EOr:
		f.child(e.L, prec(e.L) <= p)
		if e.Kind == EAnd {
			f.emit(W("and"))
		} else {
			f.emit(W("or"))
		}
		f.child(e.R, prec(e.R) < p)
	case EAssign:
		f.emit(W(e.Name), P("="))
		f.expr(e.R)
	}
}

// NeedSep tells whether two adjacent tokens must be separated so that the
// lexer sees them as written. Derived from the token definitions (DESIGN
// §5.1); conservative: it may ask for a separator that is not strictly needed.
func NeedSep(a, b Tok) bool {
	if a.Text == "" || b.Text == "" {
		return true
	}
	wordish := func(t Tok) bool { return t.Kind == TWord || t.Kind == TInt || t.Kind == TFloat }
	if wordish(a) && wordish(b) {
		return true
	}
	if wordish(a) && b.Kind == TStr {
		return true
	}
	if a.Kind == TStr && b.Kind == TWord && b.Text[0] == '_' {
		// a string may be followed directly by an identifier starting with '_' ('_' is not alphanumeric)
		return false
	}
	if a.Kind == TStr && (wordish(b) || b.Kind == TStr) {
		// "s"x fails in the lexer; "a""b" would lex as two strings, but keep apart
		return true
	}
	if a.Kind == TBad || b.Kind == TBad {
		return true
	}
	la, fb := a.Text[len(a.Text)-1], b.Text[0]
	if a.Kind == TPunct && b.Kind == TPunct {
		if strings.IndexByte("=<>!-", la) >= 0 && (fb == '=' || fb == '>') {
			return true
		}
	}
	// a float/int followed by '.'-less punct is fine; number followed by '-' or '+' is fine
	return false
}

type LayoutOpts struct {
	Hostile      bool // random separators; otherwise one space between tokens
	Newlines     bool // allow LF / CRLF in gaps
	MultiByteWS  bool // allow U+0085 and U+00A0
	Comments     bool // allow comments (needs Newlines or CR to terminate)
	RawBytes     bool // allow arbitrary (also invalid UTF-8) bytes in comments
	TouchProb    int  // percent chance to leave tokens touching where legal
	LeadTrail    bool // leading / trailing layout
	StmtNewlines bool // non-hostile: put a newline before statement keywords
}

type Laid struct {
	Src    []byte
	Start  []int // byte offset of each token
	End    []int // byte offset just after each token
	FailAt int   // absolute offset of the lexical failure, or -1
}

var wsASCII = []string{" ", "\t", "\v", "\f", "\r"}
var commentWords = []string{"\"", "var", "def", "#", "}", "{", "é", "漢", "print 1", "\\", "\"unterminated", ";", "(", "\x00", "\u0085", "\u00a0"}

func randComment(r *rand.Rand, o LayoutOpts) string {
	var b strings.Builder
	b.WriteByte('#')
	for i, n := 0, r.Intn(4); i < n; i++ {
		if o.RawBytes && r.Intn(4) == 0 {
			for {
				c := byte(r.Intn(256))
				if c != '\n' && c != '\r' {
					b.WriteByte(c)
					break
				}
			}
			continue
		}
		b.WriteString(commentWords[r.Intn(len(commentWords))])
		if r.Intn(2) == 0 {
			b.WriteByte(' ')
		}
	}
	return b.String()
}

func randGap(r *rand.Rand, o LayoutOpts, need bool, last bool) string {
	var b strings.Builder
	n := 0
	if !(o.TouchProb > 0 && !need && r.Intn(100) < o.TouchProb) {
		n = 1 + r.Intn(3)
		if !need && r.Intn(3) == 0 {
			n = 0
		}
	}
	for i := 0; i < n; i++ {
		switch k := r.Intn(12); {
		case k < 5:
			b.WriteString(wsASCII[r.Intn(len(wsASCII))])
		case k < 7 && o.Newlines:
			if r.Intn(3) == 0 {
				b.WriteString("\r\n")
			} else {
				b.WriteString("\n")
			}
		case k < 9 && o.MultiByteWS:
			if r.Intn(2) == 0 {
				b.WriteString("\u0085")
			} else {
				b.WriteString("\u00a0")
			}
		case k < 11 && o.Comments:
			b.WriteString(randComment(r, o))
			if o.Newlines && r.Intn(3) > 0 {
				b.WriteString("\n")
			} else {
				b.WriteString("\r")
			}
		default:
			b.WriteString(" ")
		}
	}
	if need && b.Len() == 0 {
		b.WriteString(" ")
	}
	return b.String()
}

var stmtKeywords = map[string]bool{"var": true, "def": true, "eval": true, "print": true, "bind": true}

// Layout renders tokens to source text and records each token's byte span.
func Layout(toks []Tok, o LayoutOpts, r *rand.Rand) *Laid {
	l := &Laid{FailAt: -1, Start: make([]int, len(toks)), End: make([]int, len(toks))}
	var b []byte
	if o.Hostile && o.LeadTrail {
		b = append(b, randGap(r, o, false, false)...)
	}
	for i, t := range toks {
		if i > 0 {
			need := NeedSep(toks[i-1], t)
			if o.Hostile {
				b = append(b, randGap(r, o, need, false)...)
			} else if o.StmtNewlines && t.Kind == TWord && stmtKeywords[t.Text] {
				b = append(b, '\n')
			} else {
				b = append(b, ' ')
			}
		}
		l.Start[i] = len(b)
		b = append(b, t.Text...)
		l.End[i] = len(b)
		if t.Kind == TBad && t.ToEOL {
			toks[i].FailAt = len(t.Text)
			if i < len(toks)-1 {
				b = append(b, '\n')
				toks[i].FailAt = len(t.Text) + 1
			}
			t = toks[i]
		}
		if t.Kind == TBad && l.FailAt < 0 {
			l.FailAt = l.Start[i] + t.FailAt
		}
	}
	if n := len(toks); n > 0 && toks[n-1].ToEOL {
		l.Src = b
		return l
	}
	if o.Hostile && o.LeadTrail {
		g := randGap(r, o, false, true)
		b = append(b, g...)
		if o.Comments && r.Intn(4) == 0 {
			b = append(b, randComment(r, o)...) // comment ended by end of input
		}
	}
	l.Src = b
	return l
}

// LineCol converts a byte offset to the documented line:column.
func LineCol(src []byte, off int) (line, col int) {
	line = 1
	prev := -1
	for i := 0; i < off && i < len(src); i++ {
		if src[i] == '\n' {
			line++
			prev = i
		}
	}
	return line, off - prev
}

// OffsetOf inverts LineCol: the byte offset designated by line:col, or -1.
func OffsetOf(src []byte, line, col int) int {
	if line < 1 || col < 0 {
		return -1
	}
	prev := -1
	l := 1
	for i := 0; l < line; i++ {
		if i >= len(src) {
			return -1
		}
		if src[i] == '\n' {
			l++
			prev = i
		}
	}
	off := prev + col
	if off < 0 || off > len(src) {
		return -1
	}
	return off
}

// Lex is a small independent tokenizer for source text that is known to be
// lexically valid (used to view repository test data as tokens). ok=false if
// it meets something outside the token definitions.
func Lex(src string) (toks []Tok, ok bool) {
	i := 0
	isAlpha := func(c byte) bool { return c >= 'a' && c <= 'z' || c >= 'A' && c <= 'Z' || c == '_' }
	isDigit := func(c byte) bool { return c >= '0' && c <= '9' }
	for i < len(src) {
		c := src[i]
		switch {
		case c == ' ' || c == '\t' || c == '\v' || c == '\f' || c == '\n' || c == '\r':
			i++
		case strings.HasPrefix(src[i:], "\u0085") || strings.HasPrefix(src[i:], "\u00a0"):
			i += 2
		case c == '#':
			for i < len(src) && src[i] != '\n' && src[i] != '\r' {
				i++
			}
		case isAlpha(c):
			j := i
			for j < len(src) && (isAlpha(src[j]) || isDigit(src[j])) {
				j++
			}
			if j < len(src) && src[j] == '"' {
				return toks, false
			}
			toks = append(toks, W(src[i:j]))
			i = j
		case isDigit(c):
			j := i
			kind := TInt
			if c == '0' && j+1 < len(src) && (src[j+1] == 'x' || src[j+1] == 'X') {
				j += 2
				for j < len(src) && strings.IndexByte("0123456789abcdefABCDEF", src[j]) >= 0 {
					j++
				}
			} else {
				for j < len(src) && isDigit(src[j]) {
					j++
				}
				if j < len(src) && src[j] == '.' {
					kind = TFloat
					j++
					k := j
					for j < len(src) && isDigit(src[j]) {
						j++
					}
					if j == k {
						return toks, false
					}
				}
				if j < len(src) && (src[j] == 'e' || src[j] == 'E') {
					kind = TFloat
					j++
					if j < len(src) && (src[j] == '+' || src[j] == '-') {
						j++
					}
					k := j
					for j < len(src) && isDigit(src[j]) {
						j++
					}
					if j == k {
						return toks, false
					}
				}
			}
			if j < len(src) && (isAlpha(src[j]) && src[j] != '_' || src[j] == '"' || (kind == TInt && src[j] == '.')) {
				return toks, false
			}
			toks = append(toks, Tok{Kind: kind, Text: src[i:j]})
			i = j
		case c == '"':
			j := i + 1
			for {
				if j >= len(src) || src[j] == '\n' {
					return toks, false
				}
				if src[j] == '\\' {
					j += 2
					if j > len(src) || src[j-1] == '\n' {
						return toks, false
					}
					continue
				}
				if src[j] == '"' {
					j++
					break
				}
				j++
			}
			if j < len(src) && (isAlpha(src[j]) && src[j] != '_' || isDigit(src[j])) {
				return toks, false
			}
			toks = append(toks, Tok{Kind: TStr, Text: src[i:j]})
			i = j
		default:
			two := ""
			if i+1 < len(src) {
				two = src[i : i+2]
			}
			switch two {
			case "==", "!=", "<=", ">=", "->":
				toks = append(toks, P(two))
				i += 2
				continue
			}
			if strings.IndexByte("={}()<>+-*/:;", c) >= 0 {
				toks = append(toks, P(string(c)))
				i++
				continue
			}
			return toks, false
		}
	}
	return toks, true
}
