// Package lang holds the independent definition of the BCL language used by
// the oracles (DESIGN §5): AST, token view, layout renderer, a strict
// recognizer/parser over tokens, and a tree-walking reference evaluator.
// It shares no code with /repo.
package lang

import (
	"fmt"
	"strings"
)

type LitKind int

const (
	LInt LitKind = iota
	LFloat
	LStr
	LTrue
	LFalse
	LNil
)

type Literal struct {
	Kind LitKind
	Text string // spelling in the source
	Val  any    // int, float64, string, bool, nil
	Bad  bool   // spelling is lexically a literal but has no value (08, 0x, 1e999, "\q")
}

type EKind int

const (
	ELit EKind = iota
	EIdent
	EUnary  // Op in "-", "+", "not"; operand L
	EBinary // Op in * / + - < <= > >= == !=
	EAnd
	EOr
	EAssign // Name = R
	EParen  // ( L )
)

type Expr struct {
	Kind  EKind
	Op    string
	Lit   *Literal
	Name  string
	L, R  *Expr
	First int // index of the first token (set by Parse)
	Last  int // index of the last token
}

type SKind int

const (
	SVar SKind = iota
	SPrint
	SEval
	SExpr
	SDef
	SBind
)

type Stmt struct {
	Kind      SKind
	Name      string // variable name / block type / bound type
	E         *Expr  // initializer (may be nil for var) / expression
	BlockName *Literal
	Body      []*Stmt
	Sel       string // "", "1", "first", "last", "all"
	Target    string // struct | slice
	Semi      bool   // an optional ';' follows

	First, Last int // token span (without the ';')
	NameTok     int // token of the variable name / type
	CloseTok    int // token of '}'
	TargetTok   int // token of the bind target
}

type Program struct {
	Stmts []*Stmt
}

// precedence levels, as documented: assignment < or < and < not < equality <
// ordering < additive < multiplicative < unary sign.
const (
	pAssign = 1
	pOr     = 2
	pAnd    = 3
	pNot    = 4
	pEq     = 5
	pCmp    = 6
	pTerm   = 7
	pFactor = 8
	pUnary  = 9
	pPrim   = 11
)

func BinPrec(op string) int {
	switch op {
	case "==", "!=":
		return pEq
	case "<", "<=", ">", ">=":
		return pCmp
	case "+", "-":
		return pTerm
	case "*", "/":
		return pFactor
	}
	return 0
}

func prec(e *Expr) int {
	switch e.Kind {
	case EAssign:
		return pAssign
	case EOr:
		return pOr
	case EAnd:
		return pAnd
	case EUnary:
		if e.Op == "not" {
			return pNot
		}
		return pUnary
	case EBinary:
		return BinPrec(e.Op)
	}
	return pPrim
}

// ------------------------------------------------------------- constructors

func Lit(l *Literal) *Expr              { return &Expr{Kind: ELit, Lit: l} }
func Id(name string) *Expr              { return &Expr{Kind: EIdent, Name: name} }
func Un(op string, x *Expr) *Expr       { return &Expr{Kind: EUnary, Op: op, L: x} }
func Bin(op string, l, r *Expr) *Expr   { return &Expr{Kind: EBinary, Op: op, L: l, R: r} }
func And(l, r *Expr) *Expr              { return &Expr{Kind: EAnd, L: l, R: r} }
func Or(l, r *Expr) *Expr               { return &Expr{Kind: EOr, L: l, R: r} }
func Assign(name string, r *Expr) *Expr { return &Expr{Kind: EAssign, Name: name, R: r} }
func Paren(x *Expr) *Expr               { return &Expr{Kind: EParen, L: x} }

func IntLit(v int) *Literal    { return &Literal{Kind: LInt, Text: fmt.Sprint(v), Val: v} }
func StrLit(s string) *Literal { return &Literal{Kind: LStr, Text: QuoteSimple(s), Val: s} }
func BoolLit(b bool) *Literal {
	if b {
		return &Literal{Kind: LTrue, Text: "true", Val: true}
	}
	return &Literal{Kind: LFalse, Text: "false", Val: false}
}
func NilLit() *Literal { return &Literal{Kind: LNil, Text: "nil", Val: nil} }

// QuoteSimple spells a string literal with the minimal escapes.
func QuoteSimple(s string) string {
	var b strings.Builder
	b.WriteByte('"')
	for i := 0; i < len(s); i++ {
		c := s[i]
		switch c {
		case '"':
			b.WriteString(`\"`)
		case '\\':
			b.WriteString(`\\`)
		case '\n':
			b.WriteString(`\n`)
		default:
			b.WriteByte(c)
		}
	}
	b.WriteByte('"')
	return b.String()
}

// StripParens removes EParen nodes (for structural comparison).
func StripParens(e *Expr) *Expr {
	if e == nil {
		return nil
	}
	if e.Kind == EParen {
		return StripParens(e.L)
	}
	c := *e
	c.L = StripParens(e.L)
	c.R = StripParens(e.R)
	return &c
}

// Shape gives a canonical text of the expression structure (fully
// parenthesised), independent of token positions.
func (e *Expr) Shape() string {
	if e == nil {
		return "_"
	}
	switch e.Kind {
	case ELit:
		return e.Lit.Text
	case EIdent:
		return e.Name
	case EUnary:
		return "(" + e.Op + " " + e.L.Shape() + ")"
	case EBinary:
		return "(" + e.L.Shape() + " " + e.Op + " " + e.R.Shape() + ")"
	case EAnd:
		return "(" + e.L.Shape() + " and " + e.R.Shape() + ")"
	case EOr:
		return "(" + e.L.Shape() + " or " + e.R.Shape() + ")"
	case EAssign:
		return "(" + e.Name + " = " + e.R.Shape() + ")"
	case EParen:
		return e.L.Shape()
	}
	return "?"
}

func (s *Stmt) Shape() string {
	switch s.Kind {
	case SVar:
		if s.E == nil {
			return "var " + s.Name
		}
		return "var " + s.Name + " = " + s.E.Shape()
	case SPrint:
		return "print " + s.E.Shape()
	case SEval:
		return "eval " + s.E.Shape()
	case SExpr:
		return "expr " + s.E.Shape()
	case SDef:
		var b strings.Builder
		b.WriteString("def " + s.Name)
		if s.BlockName != nil {
			b.WriteString(" " + s.BlockName.Text)
		}
		b.WriteString(" {")
		for _, c := range s.Body {
			b.WriteString(" " + c.Shape() + ";")
		}
		b.WriteString(" }")
		return b.String()
	case SBind:
		return "bind " + s.Name + ":" + s.Sel + "->" + s.Target
	}
	return "?"
}

func (p *Program) Shape() string {
	var b strings.Builder
	for _, s := range p.Stmts {
		b.WriteString(s.Shape())
		b.WriteString("; ")
	}
	return b.String()
}
