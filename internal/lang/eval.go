package lang

import (
	"fmt"
	"math"
	"math/bits"
	"strconv"
	"strings"
)

// RBlock is the reference model's block.
type RBlock struct {
	Type, Name string
	Fields     map[string]any // int, float64, string, bool, nil, *RBlock
}

type RBinding struct {
	Slice  bool
	Blocks []*RBlock
}

// RTErr is a predicted runtime error.
type RTErr struct {
	Class string // e.g. "ADD:int,string", "NEG:string", "divzero", "unresolved:x", "dupchild:k", "bind:none:T", "bind:count:N:T"
	Tok   int    // the error position is the end of this token
}

type Warning struct {
	Tok int
}

// Outcome is what the reference model predicts for a program.
type Outcome struct {
	Unspecified string // non-empty: the program enters an unspecified zone; no value verdict
	// TooLarge: the program computes a string repetition beyond the bound
	// (excluded by the properties: its legitimate result would exhaust memory).
	TooLarge bool
	Output   string
	Blocks   []*RBlock
	Binding  *RBinding
	Warnings []Warning
	Err      *RTErr
	// LiveAtPrint: number of live variables at each executed print statement.
	LiveAtPrint []int
	// observation counters for evidence
	Ops, Decls, BlocksOpened, Binds, ShortCircuits int
}

type unspec struct{ why string }

const tooLarge = "repeat result too large"

type rtPanic struct{ e *RTErr }

type scope struct {
	vars  map[string]any
	order []string
}

// Machine is the reference evaluator: environment chain for variables,
// block stack with maps for fields. It can run incrementally (the generator
// steers with it) and supports rollback of expression side effects.
type Machine struct {
	scopes []*scope
	blocks []*RBlock
	Out    Outcome
	out    strings.Builder
	undo   []func()
	// MaxRepeat bounds the result size of string repetition that is still specified.
	MaxRepeat int
	dead      bool
	// taint: an unspecified zone was entered in which the reference goes on
	// with the implementation's observed behaviour, only so that it can still
	// see what the rest of the program does (memory safety of the workload);
	// a tainted outcome never yields a verdict.
	taint string
}

func (m *Machine) setTaint(why string) {
	if m.taint == "" {
		m.taint = why
	}
}

func NewMachine() *Machine {
	return &Machine{scopes: []*scope{{vars: map[string]any{}}}, MaxRepeat: 1 << 16}
}

// Dead: no further statement is executed (runtime error or abort).
func (m *Machine) Dead() bool { return m.dead }

// Tainted: an unspecified zone was entered; no verdict will be given.
func (m *Machine) Tainted() bool { return m.taint != "" }

func (m *Machine) LiveVars() int {
	n := 0
	for _, s := range m.scopes {
		n += len(s.order)
	}
	return n
}

func (m *Machine) Depth() int { return len(m.blocks) }

// VisibleVars lists visible variable names, innermost first.
func (m *Machine) VisibleVars() []string {
	var out []string
	seen := map[string]bool{}
	for i := len(m.scopes) - 1; i >= 0; i-- {
		s := m.scopes[i]
		for j := len(s.order) - 1; j >= 0; j-- {
			if !seen[s.order[j]] {
				seen[s.order[j]] = true
				out = append(out, s.order[j])
			}
		}
	}
	return out
}

func (m *Machine) DeclaredHere(name string) bool {
	_, ok := m.scopes[len(m.scopes)-1].vars[name]
	return ok
}

func (m *Machine) LookupVar(name string) (any, bool) {
	for i := len(m.scopes) - 1; i >= 0; i-- {
		if v, ok := m.scopes[i].vars[name]; ok {
			return v, true
		}
	}
	return nil, false
}

// LookupField resolves a field read the way the language defines it.
func (m *Machine) LookupField(name string) (any, bool) {
	if len(m.blocks) == 0 {
		return nil, false
	}
	cur := m.blocks[len(m.blocks)-1]
	switch name {
	case "TYPE":
		return cur.Type, true
	case "NAME":
		return cur.Name, true
	}
	for i := len(m.blocks) - 1; i >= 0; i-- {
		if v, ok := m.blocks[i].Fields[name]; ok {
			return v, true
		}
	}
	return nil, false
}

// FieldsVisible lists field keys readable from the current block.
func (m *Machine) FieldsVisible() []string {
	var out []string
	seen := map[string]bool{}
	for i := len(m.blocks) - 1; i >= 0; i-- {
		for k, v := range m.blocks[i].Fields {
			if _, isBlk := v.(*RBlock); isBlk {
				continue
			}
			if !seen[k] {
				seen[k] = true
				out = append(out, k)
			}
		}
	}
	sortStrings(out)
	return out
}

func sortStrings(a []string) {
	for i := 1; i < len(a); i++ {
		for j := i; j > 0 && a[j] < a[j-1]; j-- {
			a[j], a[j-1] = a[j-1], a[j]
		}
	}
}

func TypeName(v any) string {
	switch v.(type) {
	case int:
		return "int"
	case float64:
		return "float"
	case string:
		return "string"
	case bool:
		return "bool"
	case nil:
		return "nil"
	}
	return "block"
}

func Falsey(v any) bool {
	switch x := v.(type) {
	case bool:
		return !x
	case int:
		return x == 0
	case float64:
		return x == 0
	case string:
		return x == ""
	case nil:
		return true
	}
	return false
}

func isNum(v any) bool {
	switch v.(type) {
	case int, float64:
		return true
	}
	return false
}

func toF(v any) float64 {
	if i, ok := v.(int); ok {
		return float64(i)
	}
	return v.(float64)
}

// ------------------------------------------------------------ state changes

func (m *Machine) setVar(name string, v any) {
	for i := len(m.scopes) - 1; i >= 0; i-- {
		s := m.scopes[i]
		if old, ok := s.vars[name]; ok {
			m.undo = append(m.undo, func() { s.vars[name] = old })
			s.vars[name] = v
			return
		}
	}
	panic("setVar: not found " + name)
}

func (m *Machine) setField(name string, v any) {
	f := m.blocks[len(m.blocks)-1].Fields
	old, had := f[name]
	m.undo = append(m.undo, func() {
		if had {
			f[name] = old
		} else {
			delete(f, name)
		}
	})
	f[name] = v
}

// ------------------------------------------------------------ expressions

var opName = map[string]string{"+": "ADD", "-": "SUB", "*": "MUL", "/": "DIV", "<": "LT", ">": "GT", "<=": "GT", ">=": "LT", "==": "EQ", "!=": "EQ"}

func (m *Machine) eval(e *Expr) any {
	switch e.Kind {
	case ELit:
		if e.Lit.Kind == LFloat {
			if f, _ := e.Lit.Val.(float64); f == 0 && strings.ContainsAny(e.Lit.Text, "123456789") {
				m.setTaint("float literal underflow")
			}
		}
		return e.Lit.Val
	case EParen:
		return m.eval(e.L)
	case EIdent:
		if v, ok := m.LookupVar(e.Name); ok {
			return v
		}
		if len(m.blocks) == 0 {
			panic("eval: undefined variable at toplevel (static check missed) " + e.Name)
		}
		v, ok := m.LookupField(e.Name)
		if !ok {
			panic(rtPanic{&RTErr{Class: "unresolved:" + e.Name, Tok: e.Last}})
		}
		if _, isBlk := v.(*RBlock); isBlk {
			m.setTaint("field read yields a child block")
		}
		return v
	case EAssign:
		v := m.eval(e.R)
		if _, ok := m.LookupVar(e.Name); ok {
			m.setVar(e.Name, v)
		} else {
			if len(m.blocks) == 0 {
				panic("eval: assignment to undefined variable at toplevel " + e.Name)
			}
			m.setField(e.Name, v)
		}
		return v
	case EAnd:
		l := m.eval(e.L)
		m.Out.ShortCircuits++
		if Falsey(l) {
			return l
		}
		return m.eval(e.R)
	case EOr:
		l := m.eval(e.L)
		m.Out.ShortCircuits++
		if !Falsey(l) {
			return l
		}
		return m.eval(e.R)
	case EUnary:
		x := m.eval(e.L)
		m.Out.Ops++
		switch e.Op {
		case "not":
			return Falsey(x)
		case "-":
			if !isNum(x) {
				panic(rtPanic{&RTErr{Class: "NEG:" + TypeName(x), Tok: e.L.Last}})
			}
			if i, ok := x.(int); ok {
				if i == math.MinInt64 {
					m.setTaint("negation of the smallest int")
				}
				return -i
			}
			return -x.(float64)
		default:
			if !isNum(x) {
				panic(rtPanic{&RTErr{Class: "UNPLUS:" + TypeName(x), Tok: e.L.Last}})
			}
			return x
		}
	case EBinary:
		l := m.eval(e.L)
		r := m.eval(e.R)
		m.Out.Ops++
		return m.binop(e, l, r)
	}
	panic("eval: bad node")
}

func absU(a int) uint64 {
	if a < 0 {
		return uint64(-a)
	}
	return uint64(a)
}

func (m *Machine) binop(e *Expr, l, r any) any {
	op := e.Op
	bad := func() any {
		if TypeName(l) == "block" || TypeName(r) == "block" {
			panic(unspec{"operator applied to a block value"})
		}
		panic(rtPanic{&RTErr{Class: opName[op] + ":" + TypeName(l) + "," + TypeName(r), Tok: e.R.Last}})
	}
	switch op {
	case "==", "!=":
		var eq bool
		switch {
		case isNum(l) && isNum(r):
			li, lok := l.(int)
			ri, rok := r.(int)
			if lok && rok {
				eq = li == ri
			} else {
				eq = toF(l) == toF(r)
			}
		case TypeName(l) != TypeName(r):
			eq = false
		default:
			eq = l == r
		}
		if op == "!=" {
			return !eq
		}
		return eq
	case "<", ">", "<=", ">=":
		var lt, gt bool
		switch {
		case isNum(l) && isNum(r):
			li, lok := l.(int)
			ri, rok := r.(int)
			if lok && rok {
				lt, gt = li < ri, li > ri
			} else {
				a, b := toF(l), toF(r)
				if (a != a || b != b) && (op == "<=" || op == ">=") {
					m.setTaint("<= / >= with a NaN operand")
				}
				lt, gt = a < b, a > b
			}
		case TypeName(l) == "string" && TypeName(r) == "string":
			lt, gt = l.(string) < r.(string), l.(string) > r.(string)
		default:
			return bad()
		}
		switch op {
		case "<":
			return lt
		case ">":
			return gt
		case "<=":
			return !gt
		}
		return !lt
	}
	if isNum(l) && isNum(r) {
		li, lok := l.(int)
		ri, rok := r.(int)
		if lok && rok {
			a, b := li, ri
			switch op {
			case "+":
				s := a + b
				if (b > 0 && s < a) || (b < 0 && s > a) {
					m.setTaint("int overflow")
				}
				return s
			case "-":
				s := a - b
				if (b > 0 && s > a) || (b < 0 && s < a) {
					m.setTaint("int overflow")
				}
				return s
			case "*":
				if a == math.MinInt64 || b == math.MinInt64 {
					if a == 0 || b == 0 {
						return 0
					}
					if a == 1 || b == 1 {
						return a * b
					}
					m.setTaint("int overflow")
				}
				hi, lo := bits.Mul64(absU(a), absU(b))
				if hi != 0 || lo > math.MaxInt64 {
					m.setTaint("int overflow")
				}
				return a * b
			default:
				if b == 0 {
					panic(rtPanic{&RTErr{Class: "divzero", Tok: e.R.Last}})
				}
				if a == math.MinInt64 && b == -1 {
					m.setTaint("int overflow")
					return a
				}
				return a / b
			}
		}
		if op == "/" && rok && ri == 0 {
			panic(unspec{"float divided by int zero"})
		}
		a, b := toF(l), toF(r)
		switch op {
		case "+":
			return a + b
		case "-":
			return a - b
		case "*":
			return a * b
		}
		return a / b
	}
	if ls, ok := l.(string); ok {
		switch {
		case op == "+" && TypeName(r) == "string":
			return ls + r.(string)
		case op == "+" && TypeName(r) == "int":
			return ls + strconv.Itoa(r.(int))
		case op == "+" && TypeName(r) == "float":
			f := r.(float64)
			if f != f || math.IsInf(f, 0) || (f != 0 && (math.Abs(f) < 1e-4 || math.Abs(f) >= 1e6)) {
				// %v and plain decimal notation differ there; the documentation fixes neither
				m.setTaint("string + float outside the range where notations agree")
				return ls + strconv.FormatFloat(f, 'f', -1, 64)
			}
			return ls + strings.TrimSuffix(fmt.Sprintln(f), "\n")
		case op == "+" && r == nil:
			return ls
		case op == "*" && TypeName(r) == "int":
			c := r.(int)
			if c < 0 {
				panic(unspec{"negative repeat count"})
			}
			if c > m.MaxRepeat || (len(ls) > 0 && c > m.MaxRepeat/len(ls)) {
				panic(unspec{tooLarge})
			}
			return strings.Repeat(ls, c)
		}
	}
	return bad()
}

// stackNeed is the number of operand-stack slots the expression needs.
func stackNeed(e *Expr) int {
	if e == nil {
		return 0
	}
	switch e.Kind {
	case ELit, EIdent:
		return 1
	case EParen, EUnary:
		return stackNeed(e.L)
	case EAssign:
		return stackNeed(e.R)
	case EBinary:
		return max(stackNeed(e.L), 1+stackNeed(e.R))
	case EAnd, EOr:
		return max(stackNeed(e.L), stackNeed(e.R))
	}
	return 1
}

// exprDepth is the nesting depth of the expression tree.
func exprDepth(e *Expr) int {
	if e == nil {
		return 0
	}
	return 1 + max(exprDepth(e.L), exprDepth(e.R))
}

// EvalResult is the result of evaluating one expression.
type EvalResult struct {
	Val    any
	Err    *RTErr
	Unspec string // unspecified zone entered (tainted or aborted)
	Abort  bool   // the reference cannot go on (Unspec says why)
}

func (m *Machine) evalProtected(e *Expr) (res EvalResult) {
	defer func() {
		if x := recover(); x != nil {
			switch t := x.(type) {
			case rtPanic:
				res.Err = t.e
				res.Unspec = m.taint
			case unspec:
				res.Unspec = t.why
				res.Abort = true
			default:
				panic(x)
			}
		}
	}()
	if m.LiveVars()+stackNeed(e) > 1000 {
		panic(unspec{"near the operand stack limit"})
	}
	res.Val = m.eval(e)
	if m.taint != "" {
		res.Unspec = m.taint
	}
	return res
}

// TryExpr evaluates e on the current state and rolls every side effect back.
func (m *Machine) TryExpr(e *Expr) EvalResult {
	mark := len(m.undo)
	saved := m.Out
	savedTaint := m.taint
	res := m.evalProtected(e)
	m.taint = savedTaint
	for i := len(m.undo) - 1; i >= mark; i-- {
		m.undo[i]()
	}
	m.undo = m.undo[:mark]
	m.Out = saved
	return res
}

func (m *Machine) fail(res EvalResult) bool {
	if res.Abort {
		if m.Out.Unspecified == "" {
			m.Out.Unspecified = res.Unspec
		}
		if res.Unspec == tooLarge {
			m.Out.TooLarge = true
		}
		m.dead = true
		return true
	}
	if m.taint != "" && m.Out.Unspecified == "" {
		m.Out.Unspecified = m.taint
	}
	if res.Err != nil {
		m.Out.Err = res.Err
		m.dead = true
		return true
	}
	return false
}

// ------------------------------------------------------------ statements

// Exec runs one statement. After a runtime error or on entering an
// unspecified zone the machine is dead and ignores further statements.
func (m *Machine) Exec(s *Stmt) {
	if m.dead {
		return
	}
	m.undo = m.undo[:0]
	switch s.Kind {
	case SVar:
		var v any
		if s.E != nil {
			res := m.evalProtected(s.E)
			if m.fail(res) {
				return
			}
			v = res.Val
		}
		sc := m.scopes[len(m.scopes)-1]
		sc.vars[s.Name] = v
		sc.order = append(sc.order, s.Name)
		m.Out.Decls++
	case SPrint:
		res := m.evalProtected(s.E)
		if m.fail(res) {
			return
		}
		m.out.WriteString(fmt.Sprintln(res.Val))
		m.Out.LiveAtPrint = append(m.Out.LiveAtPrint, m.LiveVars())
	case SEval, SExpr:
		res := m.evalProtected(s.E)
		if m.fail(res) {
			return
		}
	case SDef:
		m.OpenBlock(s)
		for _, c := range s.Body {
			m.Exec(c)
			if m.dead {
				return
			}
		}
		m.CloseBlock(s)
	case SBind:
		m.bind(s)
	}
}

func (m *Machine) OpenBlock(s *Stmt) {
	if m.dead {
		return
	}
	if len(m.blocks) >= 16 {
		m.Out.Unspecified = "block nesting beyond the implementation limit"
		m.dead = true
		return
	}
	name := ""
	if s.BlockName != nil {
		name, _ = s.BlockName.Val.(string)
	}
	m.blocks = append(m.blocks, &RBlock{Type: s.Name, Name: name, Fields: map[string]any{}})
	m.scopes = append(m.scopes, &scope{vars: map[string]any{}})
	m.Out.BlocksOpened++
}

func (b *RBlock) Key() string {
	if b.Name == "" {
		return b.Type
	}
	return b.Type + "." + b.Name
}

func (m *Machine) CloseBlock(s *Stmt) {
	if m.dead {
		return
	}
	blk := m.blocks[len(m.blocks)-1]
	m.blocks = m.blocks[:len(m.blocks)-1]
	m.scopes = m.scopes[:len(m.scopes)-1]
	if len(m.blocks) == 0 {
		m.Out.Blocks = append(m.Out.Blocks, blk)
		return
	}
	parent := m.blocks[len(m.blocks)-1]
	k := blk.Key()
	if _, ok := parent.Fields[k]; ok {
		m.Out.Err = &RTErr{Class: "dupchild:" + k, Tok: s.CloseTok}
		m.dead = true
		return
	}
	parent.Fields[k] = blk
}

func (m *Machine) bind(s *Stmt) {
	m.Out.Binds++
	if m.Out.Binding != nil {
		m.Out.Warnings = append(m.Out.Warnings, Warning{Tok: s.TargetTok})
	}
	var cand []*RBlock
	for _, b := range m.Out.Blocks {
		if b.Type == s.Name {
			cand = append(cand, b)
		}
	}
	if len(cand) == 0 {
		m.Out.Err = &RTErr{Class: "bind:none:" + s.Name, Tok: s.TargetTok}
		m.dead = true
		return
	}
	if (s.Sel == "" || s.Sel == "1") && len(cand) != 1 {
		m.Out.Err = &RTErr{Class: fmt.Sprintf("bind:count:%d:%s", len(cand), s.Name), Tok: s.TargetTok}
		m.dead = true
		return
	}
	var sel []*RBlock
	switch s.Sel {
	case "", "1", "first":
		sel = cand[:1]
	case "last":
		sel = cand[len(cand)-1:]
	case "all":
		sel = cand
	}
	m.Out.Binding = &RBinding{Slice: s.Target == "slice", Blocks: append([]*RBlock(nil), sel...)}
}

// Finish returns the outcome.
func (m *Machine) Finish() *Outcome {
	m.Out.Output = m.out.String()
	o := m.Out
	return &o
}

// Run evaluates a whole accepted program.
func Run(p *Program) *Outcome { return RunWith(p, 1<<16) }

// RunWith evaluates with a given bound on specified string repetition results.
func RunWith(p *Program, maxRepeat int) *Outcome {
	m := NewMachine()
	m.MaxRepeat = maxRepeat
	for _, s := range p.Stmts {
		m.Exec(s)
	}
	return m.Finish()
}

// ------------------------------------------------------------ message classes

// ClassOfRuntimeError extracts the class and "L:C" of a runtime error text of
// the implementation, tolerant to wording.
func ClassOfRuntimeError(msg string) (class, pos string, ok bool) {
	const pfx = "runtime error: line "
	if !strings.HasPrefix(msg, pfx) {
		return "", "", false
	}
	rest := msg[len(pfx):]
	k := strings.Index(rest, ": ")
	if k < 0 {
		return "", "", false
	}
	pos, rest = rest[:k], rest[k+2:]
	switch {
	case strings.Contains(rest, "invalid types: "):
		op := strings.SplitN(rest, ":", 2)[0]
		ts := rest[strings.Index(rest, "invalid types: ")+len("invalid types: "):]
		parts := strings.SplitN(ts, ", ", 2)
		if len(parts) == 2 {
			t2 := parts[1]
			if j := strings.IndexAny(t2, " ,;"); j >= 0 {
				t2 = t2[:j]
			}
			return op + ":" + parts[0] + "," + t2, pos, true
		}
	case strings.Contains(rest, "invalid type: "):
		op := strings.SplitN(rest, ":", 2)[0]
		t := rest[strings.Index(rest, "invalid type: ")+len("invalid type: "):]
		if j := strings.IndexAny(t, " ,;"); j >= 0 {
			t = t[:j]
		}
		return op + ":" + t, pos, true
	case strings.Contains(rest, "division by int zero"):
		return "divzero", pos, true
	case strings.HasPrefix(rest, "identifier '"):
		t := rest[len("identifier '"):]
		if j := strings.Index(t, "' not resolved"); j >= 0 {
			return "unresolved:" + t[:j], pos, true
		}
	case strings.HasPrefix(rest, "child ") && strings.HasSuffix(rest, " duplicate at parent"):
		return "dupchild:" + rest[len("child "):len(rest)-len(" duplicate at parent")], pos, true
	case strings.HasPrefix(rest, "bind: no blocks of type "):
		return "bind:none:" + rest[len("bind: no blocks of type "):], pos, true
	case strings.HasPrefix(rest, "bind: found "):
		var n int
		var t string
		if _, err := fmt.Sscanf(rest, "bind: found %d blocks of type %s but expected just 1", &n, &t); err == nil {
			return fmt.Sprintf("bind:count:%d:%s", n, t), pos, true
		}
	}
	return "other:" + rest, pos, true
}
