//go:build race

package core

const RaceBuild = true
