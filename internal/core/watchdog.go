package core

import (
	"fmt"
	"os"
	"regexp"
	"runtime"
	"strings"
	"sync"
	"sync/atomic"
	"time"
)

// Per-case watchdog of a worker process (DESIGN §4.5/§4.6).
//
// A case that does not finish is examined through goroutine dumps: if on two
// samples >= 300 ms apart every goroutine with a frame of the library is
// blocked in a channel operation with an identical stack, no progress is
// possible: DEADLOCK (a logical verdict). Otherwise the case is given its
// wall-clock budget; when that is exceeded the worker prints the dump and
// exits with ExitWatchdog, and the parent re-runs the case alone with a 10x
// budget before calling it a hang.

const (
	ExitWatchdog = 97
	ExitDeadlock = 98
)

type caseClock struct {
	cur    atomic.Int64 // case index
	start  atomic.Int64 // unix nanos; 0 = idle
	budget atomic.Int64 // nanos
}

var clock caseClock

// G is one goroutine of a dump.
type G struct {
	ID     string
	State  string
	Frames []string
	Text   string
}

var gHeader = regexp.MustCompile(`^goroutine (\d+) \[([^\]]+)\]:`)

func ParseDump(dump string) []G {
	var gs []G
	for _, blk := range strings.Split(dump, "\n\n") {
		lines := strings.Split(strings.TrimSpace(blk), "\n")
		if len(lines) == 0 {
			continue
		}
		m := gHeader.FindStringSubmatch(lines[0])
		if m == nil {
			continue
		}
		g := G{ID: m[1], State: m[2], Text: blk}
		if k := strings.Index(g.State, ","); k >= 0 {
			g.State = g.State[:k]
		}
		for _, l := range lines[1:] {
			if !strings.HasPrefix(l, "\t") && !strings.HasPrefix(l, "created by") {
				g.Frames = append(g.Frames, l)
			}
		}
		gs = append(gs, g)
	}
	return gs
}

var stackBuf = struct {
	mu  sync.Mutex
	buf []byte
}{buf: make([]byte, 64<<10)}

func AllStacks() string {
	stackBuf.mu.Lock()
	defer stackBuf.mu.Unlock()
	for {
		n := runtime.Stack(stackBuf.buf, true)
		if n < len(stackBuf.buf) {
			return string(stackBuf.buf[:n])
		}
		stackBuf.buf = make([]byte, 2*len(stackBuf.buf))
	}
}

const libPrefix = "github.com/wkhere/bcl."

// LibGoroutines returns the goroutines having a frame inside the library.
func LibGoroutines(gs []G) []G {
	var out []G
	for _, g := range gs {
		for _, f := range g.Frames {
			if strings.HasPrefix(f, libPrefix) || strings.Contains(f, "/bcl.") && strings.Contains(f, "wkhere") {
				out = append(out, g)
				break
			}
		}
	}
	return out
}

func blockedOnChan(state string) bool {
	switch state {
	case "chan send", "chan receive", "select", "chan send (nil chan)", "chan receive (nil chan)", "select (no cases)":
		return true
	}
	return false
}

// deadlockSignature returns a non-empty signature when every library
// goroutine is blocked on a channel operation.
func deadlockSignature() (sig string, dump string) {
	dump = AllStacks()
	gs := LibGoroutines(ParseDump(dump))
	if len(gs) == 0 {
		return "", dump
	}
	// a deadlock is a call that cannot return: some goroutine must be inside
	// the library on behalf of the harness (a frame of ours below a library
	// frame). Goroutines merely left behind by a call that returned are a leak,
	// which the checks report themselves.
	inCall := false
	for _, g := range gs {
		seenLib := false
		for _, f := range g.Frames {
			if strings.HasPrefix(f, libPrefix) {
				seenLib = true
			} else if seenLib && (strings.HasPrefix(f, "verif/") || strings.HasPrefix(f, "main.")) {
				inCall = true
			}
		}
	}
	if !inCall {
		return "", dump
	}
	var b strings.Builder
	for _, g := range gs {
		if !blockedOnChan(g.State) {
			return "", dump
		}
		// a goroutine blocked inside the harness (reader script, hook) is not the library's fault
		top := ""
		for _, f := range g.Frames {
			if strings.HasPrefix(f, "runtime.") {
				continue
			}
			top = f
			break
		}
		if !strings.HasPrefix(top, libPrefix) {
			return "", dump
		}
		b.WriteString(g.ID + ":" + g.State + ":" + strings.Join(g.Frames, "|") + "\n")
	}
	return b.String(), dump
}

func (c *Ctx) startWatchdog() {
	go func() {
		var lastSig string
		var lastCase int64 = -1
		for {
			time.Sleep(300 * time.Millisecond)
			st := clock.start.Load()
			if st == 0 {
				lastSig = ""
				continue
			}
			cur := clock.cur.Load()
			el := time.Now().UnixNano() - st
			if el < int64(time.Second) {
				lastSig = ""
				continue
			}
			sig, dump := deadlockSignature()
			if sig != "" && sig == lastSig && cur == lastCase {
				fmt.Fprintf(os.Stderr, "\nDEADLOCK-CONFIRMED case %d: every goroutine of the library is blocked on a channel operation, identical stacks on two samples\n%s\n", cur, dump)
				os.Exit(ExitDeadlock)
			}
			lastSig, lastCase = sig, cur
			if el > clock.budget.Load() {
				fmt.Fprintf(os.Stderr, "\nWATCHDOG case %d exceeded its wall-clock budget of %v\n%s\n", cur, time.Duration(clock.budget.Load()), AllStacks())
				os.Exit(ExitWatchdog)
			}
		}
	}()
}

// SetBudget sets the wall-clock budget per case (default 30 s; x10 when a
// case is re-run alone).
func (c *Ctx) SetBudget(d time.Duration) {
	if c.Only >= 0 {
		d *= 10
	}
	clock.budget.Store(int64(d))
}

func (c *Ctx) tick(i int64) {
	clock.cur.Store(i)
	clock.start.Store(time.Now().UnixNano())
}

// Idle tells the watchdog that no case is running (e.g. while generating).
func (c *Ctx) Idle() { clock.start.Store(0) }
