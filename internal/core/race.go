package core

import (
	"fmt"
	"os"
	"path/filepath"
	"regexp"
	"sort"
	"strings"
)

// RaceEnv is the environment for workers of a -race build: reports go to log
// files (counted by ScanRaceLogs), the process goes on and exits normally.
func RaceEnv(dir string) []string {
	return []string{"GORACE=halt_on_error=0 log_path=" + filepath.Join(dir, "race") + " history_size=3 exitcode=0"}
}

var raceBlockRe = regexp.MustCompile(`(?s)WARNING: DATA RACE.*?==================`)
var frameRe = regexp.MustCompile(`(?m)^  (\S+)\(`)

// ScanRaceLogs reads the race detector's log files and deduplicates reports.
func ScanRaceLogs(dir string) (reports int, distinct map[string]string) {
	distinct = map[string]string{}
	ms, _ := filepath.Glob(filepath.Join(dir, "race.*"))
	for _, m := range ms {
		data, _ := os.ReadFile(m)
		for _, blk := range raceBlockRe.FindAllString(string(data), -1) {
			if !strings.Contains(blk, "github.com/wkhere/bcl.") {
				continue
			}
			reports++
			// signature: the two access stacks' library functions, line numbers stripped
			var fns []string
			for _, part := range strings.Split(blk, "\n\n") {
				if strings.Contains(part, "Goroutine ") && strings.Contains(part, "created at") {
					continue
				}
				for _, fm := range frameRe.FindAllStringSubmatch(part, -1) {
					if strings.HasPrefix(fm[1], "github.com/wkhere/bcl.") {
						fns = append(fns, strings.TrimPrefix(fm[1], "github.com/wkhere/bcl."))
						break
					}
				}
			}
			if len(fns) > 2 {
				fns = fns[:2]
			}
			sort.Strings(fns)
			sig := "race:" + strings.Join(fns, "|")
			if _, ok := distinct[sig]; !ok {
				distinct[sig] = blk
			}
		}
	}
	return
}

// raceViolations turns the distinct reports into violations.
func raceViolations(dir string) (vs []Violation, reports int) {
	reports, distinct := ScanRaceLogs(dir)
	var sigs []string
	for s := range distinct {
		sigs = append(sigs, s)
	}
	sort.Strings(sigs)
	for _, s := range sigs {
		vs = append(vs, Violation{Sig: s, Case: -1,
			What:   fmt.Sprintf("data race reported by the race detector (%d reports in this run involve the library)", reports),
			Detail: map[string]any{"report": Trunc(distinct[s], 5000)}})
	}
	return vs, reports
}

var _ = os.ReadFile
