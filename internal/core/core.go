// Package core is the skeleton shared by all checks: sharded worker
// processes with a journal, result merging, known findings, evidence and
// replay files.
package core

import (
	"bufio"
	"encoding/binary"
	"encoding/json"
	"fmt"
	"hash/fnv"
	"math/rand"
	"os"
	"os/exec"
	"path/filepath"
	"runtime/debug"
	"sort"
	"strconv"
	"strings"
	"sync"
	"syscall"
	"time"
)

var sigQuit = syscall.SIGQUIT

// Root is the directory of the verification machinery (run.sh exports VERIF_ROOT).
var Root = func() string {
	if r := os.Getenv("VERIF_ROOT"); r != "" {
		return r
	}
	return "/verif"
}()

// Check describes one property check.
type Check struct {
	ID          string
	Level       string // evidence level
	Rule        string
	Assumptions []string
	// MinNontrivial is the least number of distinct non-trivial observations
	// below which a run is INCONCLUSIVE rather than a pass.
	MinNontrivial int
	// Shards gives the number of worker processes for a tier (0: 16).
	Shards func(tier string) int
	// Race tells whether the tier needs the -race build of the worker.
	Race func(tier string) bool
	// Run executes the cases of shard c.Shard.
	Run func(c *Ctx)
	// Post is run in the parent after all shards finished (optional).
	Post func(p *Parent)
	// WorkerTimeout is the watchdog for one worker process.
	WorkerTimeout func(tier string) time.Duration
	// RaceAlso: after the main pass, repeat the quick-sized workload under the
	// -race build and treat race reports with a library frame as violations.
	RaceAlso func(tier string) bool
	// Env gives extra environment variables for the workers (dir = run directory).
	Env func(dir string) []string
}

var registry = map[string]*Check{}

func Register(c *Check) { registry[c.ID] = c }

func Lookup(id string) *Check { return registry[id] }

func IDs() []string {
	var ids []string
	for id := range registry {
		ids = append(ids, id)
	}
	sort.Strings(ids)
	return ids
}

// Violation is one refuting observation.
type Violation struct {
	Sig    string         `json:"sig"`
	Case   int64          `json:"case"`
	What   string         `json:"what"`
	Detail map[string]any `json:"detail,omitempty"`
}

// Result is what one worker reports.
type Result struct {
	Shard        int                 `json:"shard"`
	Evaluations  int64               `json:"evaluations"`
	Nontrivial   int64               `json:"nontrivial"`
	Unspecified  int64               `json:"unspecified"`
	Inconclusive int64               `json:"inconclusive"`
	InconWhy     []string            `json:"inconclusive_why,omitempty"`
	Counters     map[string]int64    `json:"counters"`
	Sets         map[string][]string `json:"sets,omitempty"`
	Samples      []any               `json:"samples"`
	Violations   []Violation         `json:"violations"`
	Finished     bool                `json:"finished"`
	LastCase     int64               `json:"last_case"`
}

// Ctx is the worker-side context of a check run.
type Ctx struct {
	ID     string
	Tier   string
	Seed   int64
	Shard  int
	Shards int
	Only   int64 // >=0: run just this case
	From   int64 // skip cases below
	Dir    string

	mu         sync.Mutex
	res        Result
	hashes     map[uint64]struct{}
	sets       map[string]map[string]struct{}
	journal    *os.File
	stopped    bool
	cur        int64
	maxSamples int
}

func (c *Ctx) Quick() bool { return c.Tier != "thorough" }

// Pick returns q in the quick tier and t in the thorough tier.
func (c *Ctx) Pick(q, t int) int {
	if c.Quick() {
		return q
	}
	return t
}

// StopWorker makes the worker skip all remaining cases (its process state is
// no longer trustworthy, e.g. goroutines were leaked into it); the skipped
// cases are counted.
func (c *Ctx) StopWorker(why string) {
	if !c.stopped {
		c.stopped = true
		c.Inconclusive("worker stopped early after a violation: " + why)
	}
}

// Mine tells whether case i belongs to this worker.
func (c *Ctx) Mine(i int64) bool {
	if c.stopped {
		return false
	}
	if c.Only >= 0 {
		return i == c.Only
	}
	if i < c.From {
		return false
	}
	return int(i%int64(c.Shards)) == c.Shard
}

// Begin journals the start of case i. Must be called before the code under
// test is entered.
func (c *Ctx) Begin(i int64) {
	c.cur = i
	c.res.LastCase = i
	c.tick(i)
	if c.journal != nil {
		fmt.Fprintf(c.journal, "case %d\n", i)
	}
}

// Note writes free text to the journal (e.g. the input about to be used).
func (c *Ctx) Note(format string, a ...any) {
	if c.journal != nil {
		fmt.Fprintf(c.journal, "note "+format+"\n", a...)
	}
}

// NoteInput records the input of the current case when running a single case
// (replay/confirmation mode), so that a crash leaves it behind.
func (c *Ctx) NoteInput(name string, data []byte) {
	if c.Only >= 0 {
		os.WriteFile(filepath.Join(c.Dir, fmt.Sprintf("input-%d-%s", c.Only, name)), data, 0o644)
	}
}

func (c *Ctx) Cur() int64 { return c.cur }

// Rand gives the PRNG of case i.
func (c *Ctx) Rand(i int64) *rand.Rand {
	return rand.New(rand.NewSource(Mix(c.Seed, i)))
}

func Mix(seed, i int64) int64 {
	x := uint64(seed)*0x9E3779B97F4A7C15 + uint64(i)*0xBF58476D1CE4E5B9 + 0x94D049BB133111EB
	x ^= x >> 30
	x *= 0xBF58476D1CE4E5B9
	x ^= x >> 27
	x *= 0x94D049BB133111EB
	x ^= x >> 31
	return int64(x)
}

func Hash(parts ...any) uint64 {
	h := fnv.New64a()
	for _, p := range parts {
		switch v := p.(type) {
		case string:
			h.Write([]byte(v))
		case []byte:
			h.Write(v)
		default:
			fmt.Fprintf(h, "%v", v)
		}
		h.Write([]byte{0})
	}
	return h.Sum64()
}

func (c *Ctx) Eval(n int64) {
	c.mu.Lock()
	c.res.Evaluations += n
	c.mu.Unlock()
}

// Nontrivial records a distinct non-trivial case by its hash.
func (c *Ctx) Nontrivial(h uint64) {
	c.mu.Lock()
	c.hashes[h] = struct{}{}
	c.mu.Unlock()
}

func (c *Ctx) Count(name string, n int64) {
	c.mu.Lock()
	c.res.Counters[name] += n
	c.mu.Unlock()
}

// Max keeps the maximum under name (merged as max by the parent when the
// name starts with "max_").
func (c *Ctx) Max(name string, n int64) {
	c.mu.Lock()
	if n > c.res.Counters[name] {
		c.res.Counters[name] = n
	}
	c.mu.Unlock()
}

// SetAdd adds an element to a named set; the parent reports the size of the
// union as counter "distinct_<name>".
func (c *Ctx) SetAdd(name, elem string) {
	c.mu.Lock()
	s := c.sets[name]
	if s == nil {
		s = map[string]struct{}{}
		c.sets[name] = s
	}
	if len(s) < 200000 {
		s[elem] = struct{}{}
	}
	c.mu.Unlock()
}

func (c *Ctx) Unspecified() {
	c.mu.Lock()
	c.res.Unspecified++
	c.mu.Unlock()
}

func (c *Ctx) Inconclusive(why string) {
	c.mu.Lock()
	c.res.Inconclusive++
	if len(c.res.InconWhy) < 10 {
		c.res.InconWhy = append(c.res.InconWhy, why)
	}
	c.mu.Unlock()
}

func (c *Ctx) Sample(v any) {
	c.mu.Lock()
	if len(c.res.Samples) < c.maxSamples {
		c.res.Samples = append(c.res.Samples, v)
	}
	c.mu.Unlock()
}

func (c *Ctx) WantSample() bool {
	c.mu.Lock()
	defer c.mu.Unlock()
	return len(c.res.Samples) < c.maxSamples
}

// Violation records a refuting observation for the current case.
func (c *Ctx) Violation(sig, what string, detail map[string]any) {
	c.mu.Lock()
	defer c.mu.Unlock()
	if len(c.res.Violations) < 200 {
		c.res.Violations = append(c.res.Violations, Violation{Sig: sig, Case: c.cur, What: Trunc(what, 2000), Detail: detail})
	} else {
		c.res.Counters["violations_dropped"]++
	}
	if c.Only >= 0 {
		fmt.Printf("violation case=%d sig=%s: %s\n", c.cur, sig, what)
	}
}

func (c *Ctx) Violations() int { c.mu.Lock(); defer c.mu.Unlock(); return len(c.res.Violations) }

func Trunc(s string, n int) string {
	if len(s) > n {
		return s[:n] + fmt.Sprintf("…(+%d bytes)", len(s)-n)
	}
	return s
}

// RunWorker is the entry point of a worker process.
func RunWorker(id, tier string, seed int64, shard, shards int, only, from int64, dir string) error {
	ck := Lookup(id)
	if ck == nil {
		return fmt.Errorf("unknown check %s", id)
	}
	os.MkdirAll(dir, 0o755)
	if !RaceBuild && os.Getenv("VERIF_NO_RLIMIT") == "" {
		// safety net only: workloads are built not to need much memory
		lim := syscall.Rlimit{Cur: 5 << 30, Max: 5 << 30}
		syscall.Setrlimit(syscall.RLIMIT_AS, &lim)
		// the collector works harder long before that limit is near
		debug.SetMemoryLimit(2 << 30)
	}
	c := &Ctx{ID: id, Tier: tier, Seed: seed, Shard: shard, Shards: shards, Only: only, From: from, Dir: dir,
		hashes: map[uint64]struct{}{}, sets: map[string]map[string]struct{}{}, maxSamples: 4}
	c.res.Shard = shard
	c.res.Counters = map[string]int64{}
	tag := fmt.Sprintf("%d", shard)
	if only >= 0 {
		tag = fmt.Sprintf("only%d", only)
	} else if from > 0 {
		tag = fmt.Sprintf("%d-from%d", shard, from)
	}
	j, err := os.OpenFile(filepath.Join(dir, "journal-"+tag), os.O_CREATE|os.O_WRONLY|os.O_TRUNC, 0o644)
	if err != nil {
		return err
	}
	c.journal = j
	c.SetBudget(30 * time.Second)
	c.startWatchdog()
	ck.Run(c)
	c.Idle()
	c.res.Finished = true
	c.res.Nontrivial = int64(len(c.hashes))
	c.res.Sets = map[string][]string{}
	for name, s := range c.sets {
		for e := range s {
			c.res.Sets[name] = append(c.res.Sets[name], e)
		}
	}
	// hashes
	hf, err := os.Create(filepath.Join(dir, "hashes-"+tag))
	if err != nil {
		return err
	}
	bw := bufio.NewWriter(hf)
	var b [8]byte
	for h := range c.hashes {
		binary.LittleEndian.PutUint64(b[:], h)
		bw.Write(b[:])
	}
	bw.Flush()
	hf.Close()
	data, err := json.Marshal(&c.res)
	if err != nil {
		return fmt.Errorf("result marshal: %w", err)
	}
	if err := os.WriteFile(filepath.Join(dir, "result-"+tag+".json"), data, 0o644); err != nil {
		return err
	}
	fmt.Fprintf(j, "finished\n")
	j.Close()
	return nil
}

// ---------------------------------------------------------------- parent

type Parent struct {
	Check  *Check
	Tier   string
	Seed   int64
	Dir    string
	Exe    string
	Merged Result
	Hashes map[uint64]struct{}
	Sets   map[string]map[string]struct{}
	Extra  map[string]any // extra coverage keys
	start  time.Time
}

type KnownFinding struct {
	Property  string `json:"property"`
	Status    string `json:"status"` // known | fixed
	Signature string `json:"signature"`
	Commit    string `json:"commit,omitempty"`
	What      string `json:"what"`
}

func LoadKnown() ([]KnownFinding, error) {
	data, err := os.ReadFile(filepath.Join(Root, "known_findings.json"))
	if err != nil {
		if os.IsNotExist(err) {
			return nil, nil
		}
		return nil, err
	}
	var f struct {
		Findings []KnownFinding `json:"findings"`
	}
	if err := json.Unmarshal(data, &f); err != nil {
		return nil, err
	}
	return f.Findings, nil
}

func lastJournalCase(path string) (int64, bool) {
	data, err := os.ReadFile(path)
	if err != nil {
		return -1, false
	}
	last := int64(-1)
	fin := false
	for _, ln := range strings.Split(string(data), "\n") {
		if strings.HasPrefix(ln, "case ") {
			n, err := strconv.ParseInt(ln[5:], 10, 64)
			if err == nil {
				last = n
			}
		}
		if ln == "finished" {
			fin = true
		}
	}
	return last, fin
}

func tail(path string, n int) string {
	data, _ := os.ReadFile(path)
	if len(data) > n {
		data = data[len(data)-n:]
	}
	return string(data)
}

func head(path string, n int) string {
	data, _ := os.ReadFile(path)
	if len(data) > n {
		data = data[:n]
	}
	return string(data)
}

// crashSig derives a signature from a Go crash dump: the message line and the
// first frame inside the library.
func crashSig(stderr string) (sig string, isCrash bool) {
	lines := strings.Split(stderr, "\n")
	msg := ""
	for i, ln := range lines {
		if strings.HasPrefix(ln, "panic: ") || strings.HasPrefix(ln, "fatal error: ") {
			msg = ln
			isCrash = true
			// first bcl frame after
			for _, l2 := range lines[i:] {
				l2 = strings.TrimSpace(l2)
				if strings.HasPrefix(l2, "github.com/wkhere/bcl.") && !strings.Contains(l2, "Verif") {
					fn := l2
					if k := strings.Index(fn, "("); k > 0 {
						fn = fn[:k]
					}
					return "crash:" + classify(msg) + "@" + fn, true
				}
			}
			break
		}
	}
	if isCrash {
		return "crash:" + classify(msg), true
	}
	return "", false
}

func classify(msg string) string {
	// strip addresses and numbers to make the class stable
	var b strings.Builder
	for _, r := range msg {
		if r >= '0' && r <= '9' {
			continue
		}
		b.WriteRune(r)
	}
	s := b.String()
	if len(s) > 80 {
		s = s[:80]
	}
	return s
}

func (p *Parent) spawn(args []string, tag string, timeout time.Duration, env []string) (exit int, timedOut bool, stderrPath string) {
	stdoutPath := filepath.Join(p.Dir, "stdout-"+tag)
	stderrPath = filepath.Join(p.Dir, "stderr-"+tag)
	so, _ := os.Create(stdoutPath)
	se, _ := os.Create(stderrPath)
	defer so.Close()
	defer se.Close()
	cmd := exec.Command(p.Exe, args...)
	cmd.Stdout = so
	cmd.Stderr = se
	cmd.Stdin = nil
	cmd.Env = append(os.Environ(), env...)
	cmd.Env = append(cmd.Env, "GOTRACEBACK=all")
	if err := cmd.Start(); err != nil {
		fmt.Fprintf(se, "spawn error: %v\n", err)
		return 127, false, stderrPath
	}
	done := make(chan error, 1)
	go func() { done <- cmd.Wait() }()
	select {
	case err := <-done:
		if err == nil {
			return 0, false, stderrPath
		}
		if ee, ok := err.(*exec.ExitError); ok {
			return ee.ExitCode(), false, stderrPath
		}
		return 126, false, stderrPath
	case <-time.After(timeout):
		// ask for a goroutine dump, then kill
		cmd.Process.Signal(sigQuit)
		select {
		case <-done:
		case <-time.After(10 * time.Second):
			cmd.Process.Kill()
			<-done
		}
		return -1, true, stderrPath
	}
}

// RunParent runs all shards, merges, writes evidence, prints verdict lines and
// returns the exit code.
func RunParent(id, tier string, seed int64, exe, raceExe string) int {
	ck := Lookup(id)
	if ck == nil {
		fmt.Fprintf(os.Stderr, "unknown check %s\n", id)
		return 3
	}
	p := &Parent{Check: ck, Tier: tier, Seed: seed, start: time.Now(),
		Hashes: map[uint64]struct{}{}, Sets: map[string]map[string]struct{}{}, Extra: map[string]any{}}
	p.Merged.Counters = map[string]int64{}
	p.Exe = exe
	if ck.Race != nil && ck.Race(tier) {
		p.Exe = raceExe
	}
	p.Dir = filepath.Join(Root, ".work", "run", fmt.Sprintf("%s-%s-%d", id, tier, seed))
	os.RemoveAll(p.Dir)
	os.MkdirAll(p.Dir, 0o755)
	shards := 16
	if ck.Shards != nil {
		if n := ck.Shards(tier); n > 0 {
			shards = n
		}
	}
	timeout := 30 * time.Minute
	if tier == "thorough" {
		timeout = 3 * time.Hour
	}
	if ck.WorkerTimeout != nil {
		timeout = ck.WorkerTimeout(tier)
	}

	var mu sync.Mutex
	var crashViol []Violation
	runPass := func(workerTier, prefix string, envf func(string) []string) {
		var wg sync.WaitGroup
		for s := 0; s < shards; s++ {
			wg.Add(1)
			go func(s int) {
				defer wg.Done()
				from := int64(0)
				for attempt := 0; attempt < 6; attempt++ {
					tag := fmt.Sprintf("%d", s)
					if from > 0 {
						tag = fmt.Sprintf("%d-from%d", s, from)
					}
					_ = prefix
					args := []string{"worker", id, "--tier", workerTier, "--seed", fmt.Sprint(seed),
						"--shard", fmt.Sprintf("%d/%d", s, shards), "--from", fmt.Sprint(from), "--dir", p.Dir}
					var env []string
					if envf != nil {
						env = envf(p.Dir)
					}
					exit, timedOut, stderrPath := p.spawn(args, "w"+tag, timeout, env)
					resPath := filepath.Join(p.Dir, "result-"+tag+".json")
					if exit == 0 {
						if data, err := os.ReadFile(resPath); err == nil {
							var r Result
							if json.Unmarshal(data, &r) == nil && r.Finished {
								mu.Lock()
								p.merge(&r, filepath.Join(p.Dir, "hashes-"+tag))
								mu.Unlock()
								return
							}
						}
					}
					// abnormal end
					mu.Lock()
					settled := len(crashViol) > 0
					mu.Unlock()
					if settled {
						// a crash, hang or deadlock of this run has already been confirmed: the verdict is a
						// violation whatever this shard would add; do not spend another confirmation on it
						return
					}
					last, _ := lastJournalCase(filepath.Join(p.Dir, "journal-"+tag))
					stderrTail := tail(stderrPath, 6000)
					sig, isCrash := crashSig(head(stderrPath, 200000))
					if exit == ExitDeadlock {
						v := p.confirm(id, tier, seed, last, timeout)
						mu.Lock()
						if v != nil && v.Sig == "deadlock" {
							crashViol = append(crashViol, *v)
						} else {
							crashViol = append(crashViol, Violation{Sig: "deadlock", Case: last,
								What:   "deadlock: every goroutine of the library blocked on a channel operation (identical stacks on two samples)",
								Detail: map[string]any{"stderr_tail": stderrTail, "reproduced": v != nil}})
						}
						mu.Unlock()
					} else if exit == ExitWatchdog {
						v := p.confirm(id, tier, seed, last, timeout)
						mu.Lock()
						if v != nil {
							crashViol = append(crashViol, *v)
						} else {
							p.Merged.Inconclusive++
							p.Merged.InconWhy = append(p.Merged.InconWhy, fmt.Sprintf("case %d exceeded its wall-clock budget in worker %s but finished when run alone with a 10x budget", last, tag))
						}
						mu.Unlock()
					} else if timedOut {
						mu.Lock()
						p.Merged.Inconclusive++
						p.Merged.InconWhy = append(p.Merged.InconWhy, fmt.Sprintf("worker %s hit the wall-clock watchdog at case %d", tag, last))
						mu.Unlock()
						// confirm alone with a larger budget
						v := p.confirm(id, tier, seed, last, timeout)
						if v != nil {
							mu.Lock()
							crashViol = append(crashViol, *v)
							mu.Unlock()
						}
					} else if isCrash || exit != 0 {
						v := p.confirm(id, tier, seed, last, timeout)
						mu.Lock()
						if v != nil {
							crashViol = append(crashViol, *v)
						} else if isCrash && strings.Contains(sig, "out of memory") {
							// the worker ran into the harness's own address-space limit (RLIMIT_AS) and the case is fine
							// when run alone: a resource verdict about the harness, not about the property
							p.Merged.Inconclusive++
							p.Merged.InconWhy = append(p.Merged.InconWhy, fmt.Sprintf("worker %s ran out of memory under the harness's own address-space limit at case %d; the case finished when run alone", tag, last))
						} else if isCrash {
							// not reproduced alone, but a panic is a panic: report with the dump
							crashViol = append(crashViol, Violation{Sig: sig, Case: last,
								What:   "worker process died (not reproduced when the case ran alone)",
								Detail: map[string]any{"stderr_tail": stderrTail, "reproduced": false}})
						} else {
							p.Merged.Inconclusive++
							p.Merged.InconWhy = append(p.Merged.InconWhy, fmt.Sprintf("worker %s exited %d without a crash dump at case %d: %s", tag, exit, last, Trunc(stderrTail, 300)))
						}
						mu.Unlock()
					}
					if last < 0 {
						return
					}
					mu.Lock()
					settled = len(crashViol) > 0
					mu.Unlock()
					if settled {
						return
					}
					from = last + 1
				}
			}(s)
		}
		wg.Wait()
	}
	runPass(tier, "", ck.Env)
	if ck.RaceAlso != nil && ck.RaceAlso(tier) {
		// second pass: the quick-sized workload under the race detector build
		plain := p.Exe
		p.Exe = raceExe
		for _, pat := range []string{"result-*.json", "hashes-*", "journal-*"} {
			ms, _ := filepath.Glob(filepath.Join(p.Dir, pat))
			for _, m := range ms {
				os.Remove(m)
			}
		}
		runPass("quick", "race", RaceEnv)
		p.Exe = plain
		vs, reports := raceViolations(p.Dir)
		p.Extra["race_detector_pass"] = "quick-sized workload repeated under the -race build"
		p.Extra["race_detector_reports"] = reports
		mu.Lock()
		crashViol = append(crashViol, vs...)
		mu.Unlock()
	}
	for _, v := range crashViol {
		p.Merged.Violations = append(p.Merged.Violations, v)
	}
	if ck.Post != nil {
		ck.Post(p)
	}
	return p.finish()
}

// confirm re-runs one case alone; returns a violation if it crashes or hangs
// again (deterministic reproduction).
func (p *Parent) confirm(id, tier string, seed, cas int64, timeout time.Duration) *Violation {
	if cas < 0 {
		return nil
	}
	tag := fmt.Sprintf("only%d", cas)
	args := []string{"worker", id, "--tier", tier, "--seed", fmt.Sprint(seed), "--shard", "0/1", "--only", fmt.Sprint(cas), "--dir", p.Dir}
	t := 3 * time.Minute
	if timeout < t {
		t = timeout
	}
	var env []string
	if p.Check.Env != nil {
		env = p.Check.Env(p.Dir)
	}
	exit, timedOut, stderrPath := p.spawn(args, "c"+tag, t, env)
	if exit == 0 {
		// it ran to completion alone; violations it found itself are merged
		if data, err := os.ReadFile(filepath.Join(p.Dir, "result-"+tag+".json")); err == nil {
			var r Result
			if json.Unmarshal(data, &r) == nil && len(r.Violations) > 0 {
				v := r.Violations[0]
				return &v
			}
		}
		return nil
	}
	serr := head(stderrPath, 200000)
	sig, isCrash := crashSig(serr)
	detail := map[string]any{"stderr_tail": tail(stderrPath, 6000), "reproduced": true}
	// attach inputs written by NoteInput
	if ms, _ := filepath.Glob(filepath.Join(p.Dir, fmt.Sprintf("input-%d-*", cas))); len(ms) > 0 {
		for _, m := range ms {
			b, _ := os.ReadFile(m)
			detail["input:"+filepath.Base(m)] = Trunc(string(b), 4000)
			detail["input_q:"+filepath.Base(m)] = Trunc(fmt.Sprintf("%q", b), 6000)
		}
	}
	if exit == ExitDeadlock {
		return &Violation{Sig: "deadlock", Case: cas, What: "deadlock (reproduced running the case alone): every goroutine of the library blocked on a channel operation, identical stacks on two samples", Detail: detail}
	}
	if timedOut || exit == ExitWatchdog {
		return &Violation{Sig: "hang", Case: cas, What: "case does not return even when run alone with a 10x budget; goroutine dump attached", Detail: detail}
	}
	if !isCrash {
		sig = fmt.Sprintf("exit:%d", exit)
	}
	return &Violation{Sig: sig, Case: cas, What: "process died while running this case alone", Detail: detail}
}

func (p *Parent) merge(r *Result, hashPath string) {
	m := &p.Merged
	m.Evaluations += r.Evaluations
	m.Unspecified += r.Unspecified
	m.Inconclusive += r.Inconclusive
	m.InconWhy = append(m.InconWhy, r.InconWhy...)
	for k, v := range r.Counters {
		if strings.HasPrefix(k, "max_") {
			if v > m.Counters[k] {
				m.Counters[k] = v
			}
		} else {
			m.Counters[k] += v
		}
	}
	for name, es := range r.Sets {
		s := p.Sets[name]
		if s == nil {
			s = map[string]struct{}{}
			p.Sets[name] = s
		}
		for _, e := range es {
			s[e] = struct{}{}
		}
	}
	if len(m.Samples) < 8 {
		for _, s := range r.Samples {
			if len(m.Samples) < 8 {
				m.Samples = append(m.Samples, s)
			}
		}
	}
	m.Violations = append(m.Violations, r.Violations...)
	if data, err := os.ReadFile(hashPath); err == nil {
		for i := 0; i+8 <= len(data); i += 8 {
			p.Hashes[binary.LittleEndian.Uint64(data[i:])] = struct{}{}
		}
	}
}

func (p *Parent) finish() int {
	ck := p.Check
	m := &p.Merged
	known, err := LoadKnown()
	if err != nil {
		fmt.Fprintf(os.Stderr, "known_findings.json: %v\n", err)
		return 3
	}
	knownSig := map[string]KnownFinding{}
	for _, k := range known {
		if k.Property == ck.ID && k.Status == "known" {
			knownSig[k.Signature] = k
		}
	}
	sort.SliceStable(m.Violations, func(i, j int) bool { return m.Violations[i].Case < m.Violations[j].Case })
	printedKnown := map[string]bool{}
	perSig := map[string]int{}
	nviol := 0
	os.MkdirAll(filepath.Join(Root, "replays"), 0o755)
	for _, v := range m.Violations {
		if k, ok := knownSig[v.Sig]; ok {
			if !printedKnown[v.Sig] {
				printedKnown[v.Sig] = true
				fmt.Printf("KNOWN-FINDING: property=%s %s (signature %s)\n", ck.ID, k.What, v.Sig)
			}
			continue
		}
		nviol++
		perSig[v.Sig]++
		if perSig[v.Sig] > 3 || len(perSig) > 12 {
			continue
		}
		rp := filepath.Join(Root, "replays", fmt.Sprintf("%s-%d-%d.json", ck.ID, p.Seed, v.Case))
		rec := map[string]any{"property": ck.ID, "tier": p.Tier, "seed": p.Seed, "case": v.Case, "signature": v.Sig, "what": v.What, "detail": v.Detail,
			"replay_cmd": fmt.Sprintf("./run.sh replay %s", rp)}
		data, _ := json.MarshalIndent(rec, "", " ")
		os.WriteFile(rp, data, 0o644)
		fmt.Printf("VIOLATION property=%s replay=%s\n", ck.ID, rp)
		fmt.Printf("  signature: %s\n  what: %s\n", v.Sig, Trunc(v.What, 600))
	}
	distinct := int64(len(p.Hashes))
	cov := map[string]any{
		"evaluations":         m.Evaluations,
		"distinct_nontrivial": distinct,
		"rule":                ck.Rule,
		"samples":             m.Samples,
		"unspecified_cases":   m.Unspecified,
		"inconclusive_cases":  m.Inconclusive,
	}
	if len(m.InconWhy) > 0 {
		w := m.InconWhy
		if len(w) > 10 {
			w = w[:10]
		}
		cov["inconclusive_why"] = w
	}
	keys := make([]string, 0, len(m.Counters))
	for k := range m.Counters {
		keys = append(keys, k)
	}
	sort.Strings(keys)
	obs := map[string]int64{}
	for _, k := range keys {
		obs[k] = m.Counters[k]
	}
	for name, s := range p.Sets {
		obs["distinct_"+name] = int64(len(s))
	}
	cov["observed"] = obs
	for k, v := range p.Extra {
		cov[k] = v
	}
	if len(m.Samples) == 0 {
		cov["samples"] = []any{"(no samples recorded)"}
	}
	ev := map[string]any{
		"property_id": ck.ID,
		"tier":        p.Tier,
		"seed":        p.Seed,
		"level":       ck.Level,
		"coverage":    cov,
		"assumptions": ck.Assumptions,
		"wall_s":      time.Since(p.start).Seconds(),
		"violations":  nviol,
	}
	data, _ := json.MarshalIndent(ev, "", " ")
	os.MkdirAll(filepath.Join(Root, "evidence"), 0o755)
	tmp := filepath.Join(Root, "evidence", ck.ID+".json.tmp")
	os.WriteFile(tmp, data, 0o644)
	os.Rename(tmp, filepath.Join(Root, "evidence", ck.ID+".json"))

	fmt.Printf("%s %s seed=%d: evaluations=%d distinct_nontrivial=%d unspecified=%d inconclusive=%d violations=%d wall=%.1fs\n",
		ck.ID, p.Tier, p.Seed, m.Evaluations, distinct, m.Unspecified, m.Inconclusive, nviol, time.Since(p.start).Seconds())
	var ob []string
	for _, k := range keys {
		ob = append(ob, fmt.Sprintf("%s=%d", k, m.Counters[k]))
	}
	for name, s := range p.Sets {
		ob = append(ob, fmt.Sprintf("distinct_%s=%d", name, len(s)))
	}
	sort.Strings(ob)
	fmt.Printf("  observed: %s\n", strings.Join(ob, " "))
	if nviol > 0 {
		return 1
	}
	if distinct < int64(ck.MinNontrivial) || distinct < 2 {
		fmt.Printf("INCONCLUSIVE property=%s only %d distinct non-trivial observations (minimum %d)\n", ck.ID, distinct, ck.MinNontrivial)
		return 2
	}
	if m.Inconclusive > 0 {
		fmt.Printf("note: %d inconclusive cases (counted in evidence, not folded into the verdict): %v\n", m.Inconclusive, m.InconWhy)
	}
	return 0
}
