// Package mon holds the process-level monitors: scripted readers with
// counters, the goroutine-leak monitor and the perturbation controller
// driven through the library's verifPoint hook.
package mon

import (
	"errors"
	"fmt"
	"io"
	"runtime"
	"strings"
	"sync"
	"sync/atomic"
	"time"

	"github.com/wkhere/bcl"

	"verif/internal/core"
)

// Step is one scripted Read.
type Step struct {
	N     int   // bytes to hand out; -1: as many as requested
	Err   error // returned together with the bytes (io.EOF or a real error)
	Delay int   // 0 none, 1 Gosched, 2 sleep 20µs, 3 sleep 300µs
}

var ErrInjected = errors.New("injected read error")

// ErrWrappedEOF is a real read error that merely wraps io.EOF.
var ErrWrappedEOF = fmt.Errorf("connection lost: %w", io.EOF)

// ErrClose is returned by Close when asked to.
var ErrClose = errors.New("injected close error")

// Script is a bcl.FileInput whose behaviour is a list of steps.
// After the steps it hands out the remaining data in full reads, then io.EOF.
type Script struct {
	name  string
	data  []byte
	steps []Step

	mu        sync.Mutex
	pos       int
	step      int
	sticky    error
	delivered []byte
	readLog   []string

	plain            int // touched by Read and Close without synchronisation (for the race detector)
	ClosedDuringRead atomic.Int64
	Reads            atomic.Int64
	DataReads        atomic.Int64
	Closes           atomic.Int64
	ReadsAfterClose  atomic.Int64
	InRead           atomic.Bool
	CloseDelay       int
	CloseErr         error // returned by Close
	NonSticky        bool  // a read error is not repeated: the reads after it go on with the script (a reader that recovers)
	// MarkOffset: ReadsAfterMark counts data-returning reads that started
	// after the byte at MarkOffset had been delivered.
	MarkOffset     int
	ReadsAfterMark atomic.Int64
	closedAtRead   atomic.Int64
}

func NewScript(name string, data []byte, steps []Step) *Script {
	return &Script{name: name, data: data, steps: steps, MarkOffset: -1}
}

func (s *Script) Name() string { return s.name }

func delay(class int) {
	switch class {
	case 1:
		runtime.Gosched()
	case 2:
		time.Sleep(20 * time.Microsecond)
	case 3:
		time.Sleep(300 * time.Microsecond)
	}
}

func (s *Script) Read(p []byte) (int, error) {
	s.plain++ // deliberately unsynchronised: Read and Close of one input must be ordered by the library
	s.InRead.Store(true)
	defer s.InRead.Store(false)
	s.Reads.Add(1)
	if s.Closes.Load() > 0 {
		s.ReadsAfterClose.Add(1)
	}
	s.mu.Lock()
	defer s.mu.Unlock()
	if s.sticky != nil {
		return 0, s.sticky
	}
	markPassed := s.MarkOffset >= 0 && s.pos > s.MarkOffset
	var st Step
	scripted := s.step < len(s.steps)
	if scripted {
		st = s.steps[s.step]
		s.step++
	} else {
		st = Step{N: -1}
	}
	if st.Delay != 0 {
		s.mu.Unlock()
		delay(st.Delay)
		s.mu.Lock()
	}
	n := st.N
	if n < 0 || n > len(p) {
		n = len(p)
	}
	if rem := len(s.data) - s.pos; n > rem {
		n = rem
	}
	copy(p, s.data[s.pos:s.pos+n])
	s.delivered = append(s.delivered, s.data[s.pos:s.pos+n]...)
	s.pos += n
	err := st.Err
	if err == nil && n == 0 && st.N != 0 {
		// data exhausted
		err = io.EOF
	}
	if err != nil && (!s.NonSticky || err == io.EOF) {
		s.sticky = err
	}
	if n > 0 {
		s.DataReads.Add(1)
		if markPassed {
			s.ReadsAfterMark.Add(1)
		}
	}
	if len(s.readLog) < 64 {
		s.readLog = append(s.readLog, fmt.Sprintf("%d,%v", n, err))
	}
	return n, err
}

func (s *Script) Close() error {
	s.plain++
	if s.InRead.Load() {
		s.ClosedDuringRead.Add(1)
	}
	delay(s.CloseDelay)
	s.Closes.Add(1)
	return s.CloseErr
}

// ErrDelivered tells whether some Read has returned an error other than plain io.EOF.
func (s *Script) ErrDelivered() bool {
	s.mu.Lock()
	defer s.mu.Unlock()
	return s.sticky != nil && s.sticky != io.EOF
}

// Delivered is the concatenation of all bytes handed out so far.
func (s *Script) Delivered() []byte {
	s.mu.Lock()
	defer s.mu.Unlock()
	return append([]byte(nil), s.delivered...)
}

func (s *Script) ReadLog() string {
	s.mu.Lock()
	defer s.mu.Unlock()
	return strings.Join(s.readLog, " ")
}

// Partition builds steps that deliver data in chunks of the given sizes
// (the rest in full reads).
func Partition(sizes ...int) []Step {
	var st []Step
	for _, n := range sizes {
		st = append(st, Step{N: n})
	}
	return st
}

// ------------------------------------------------------------ goroutines

// LibGoroutineCount counts goroutines with a frame inside the library.
func LibGoroutineCount() (int, string) {
	dump := core.AllStacks()
	gs := core.LibGoroutines(core.ParseDump(dump))
	var b strings.Builder
	for _, g := range gs {
		b.WriteString(g.Text)
		b.WriteString("\n\n")
	}
	return len(gs), b.String()
}

// WaitQuiescent polls until no library goroutine is left, at most maxPolls
// polls (1 ms, 2 ms, 4 ms ... capped at 100 ms apart). It returns the number
// left and their stacks.
func WaitQuiescent(maxPolls int) (left int, dump string, polls int) {
	d := time.Millisecond
	for polls = 0; polls < maxPolls; polls++ {
		left, dump = LibGoroutineCount()
		if left == 0 {
			return 0, "", polls
		}
		time.Sleep(d)
		if d < 100*time.Millisecond {
			d *= 2
		}
	}
	return left, dump, polls
}

// ------------------------------------------------------------ perturbation

// Perturb is a seeded controller of delays at the library's verifPoints and
// a recorder of the order in which the points were passed.
type Perturb struct {
	seed   uint64
	n      atomic.Uint64
	bias   [32]uint8 // per point id: 0 none .. 255 always
	mu     sync.Mutex
	events []uint8
	On     bool
}

// NewPerturb makes a controller; mode selects a bias profile.
func NewPerturb(seed int64, mode int) *Perturb {
	p := &Perturb{seed: uint64(seed), On: true}
	for i := range p.bias {
		p.bias[i] = 40
	}
	// per-token points are passed thousands of times per input: keep them rare
	p.bias[bcl.VerifPtLexBeforeEmit] = 3
	p.bias[bcl.VerifPtParseAfterToken] = 3
	switch mode % 5 {
	case 0: // uniform light
	case 1: // slow parser: the lexer runs ahead
		p.bias[bcl.VerifPtParseAfterToken] = 25
		p.bias[bcl.VerifPtParseDiagnostic] = 250
	case 2: // slow reader
		p.bias[bcl.VerifPtReaderAfterRead] = 220
		p.bias[bcl.VerifPtReaderBeforeSend] = 220
	case 3: // slow lexer
		p.bias[bcl.VerifPtLexBeforeRecv] = 200
		p.bias[bcl.VerifPtLexBeforeEmit] = 20
		p.bias[bcl.VerifPtLexAfterLineUpd] = 250
	case 4: // slow shutdown paths
		p.bias[bcl.VerifPtParserReturned] = 250
		p.bias[bcl.VerifPtParserBeforeDone] = 250
		p.bias[bcl.VerifPtReaderBeforeRerr] = 250
		p.bias[bcl.VerifPtReaderBeforeClose] = 250
		p.bias[bcl.VerifPtLexBeforeClose] = 250
	}
	return p
}

func (p *Perturb) Hook(id int) {
	k := p.n.Add(1)
	if id >= 0 && id < len(p.bias) {
		p.mu.Lock()
		if len(p.events) < 4096 {
			p.events = append(p.events, uint8(id))
		}
		p.mu.Unlock()
	}
	if !p.On {
		return
	}
	x := uint64(core.Mix(int64(p.seed), int64(k)*131+int64(id)))
	b := uint8(40)
	if id >= 0 && id < len(p.bias) {
		b = p.bias[id]
	}
	if uint8(x) >= b {
		return
	}
	switch (x >> 8) % 8 {
	case 0, 1, 2, 3, 4:
		runtime.Gosched()
	case 5:
		for k := 0; k < int(1+(x>>16)%4); k++ {
			runtime.Gosched()
		}
	case 6:
		time.Sleep(time.Duration(1+(x>>16)%20) * time.Microsecond)
	case 7:
		time.Sleep(time.Duration(20+(x>>16)%60) * time.Microsecond)
	}
}

// Install sets the hook; the returned function removes it.
func (p *Perturb) Install() func() {
	bcl.VerifSetPointHook(p.Hook)
	return func() { bcl.VerifSetPointHook(nil) }
}

// Signature is the run-length compressed order of points across goroutines.
func (p *Perturb) Signature() string {
	p.mu.Lock()
	defer p.mu.Unlock()
	var b strings.Builder
	for i := 0; i < len(p.events); {
		j := i
		for j < len(p.events) && p.events[j] == p.events[i] {
			j++
		}
		fmt.Fprintf(&b, "%d", p.events[i])
		if j-i > 1 {
			b.WriteString("*")
		}
		b.WriteString(".")
		i = j
	}
	return b.String()
}

// Events returns a copy of the recorded point ids.
func (p *Perturb) Events() []uint8 {
	p.mu.Lock()
	defer p.mu.Unlock()
	return append([]uint8(nil), p.events...)
}

// LockedWriter is an io.Writer safe for concurrent use.
type LockedWriter struct {
	mu sync.Mutex
	b  []byte
	// DelayClass applied on each Write (external delay, works without hooks).
	DelayClass int
}

func (w *LockedWriter) Write(p []byte) (int, error) {
	delay(w.DelayClass)
	w.mu.Lock()
	w.b = append(w.b, p...)
	w.mu.Unlock()
	return len(p), nil
}

func (w *LockedWriter) String() string {
	w.mu.Lock()
	defer w.mu.Unlock()
	return string(w.b)
}

var _ io.Writer = (*LockedWriter)(nil)
