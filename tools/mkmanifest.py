#!/usr/bin/env python3
"""Regenerates /verif/MANIFEST.json from the table below."""
import json, subprocess

CLAIMED = {
 "C01": dict(cat="exploration", tech="runtime monitoring: reference-model monitor (independent tree-walking evaluator run side by side with bcl.Interpret on generated programs)",
   text="Every generated program is executed by the real pipeline and by an independent evaluator; printed lines, field values with dynamic type, runtime-error class and line:column must agree. A fixed list covers every operator x operand-kind cell and all operator triples; random typed trees add nesting, spellings, parentheses and embedded assignments. Held on the programs executed, nothing more.",
   note="Trusted: the reference definition of DESIGN §5 (validated against the pinned tree on millions of programs), Go's fmt/strconv. Unspecified zones (§5.3) give no verdict.", ref="§6 C01"),
 "C02": dict(cat="exploration", tech="runtime monitoring: reference-model monitor (environment-chain evaluator vs the slot-based compiler/VM) on scope-centred generated programs",
   text="Programs with dense shadowing, re-declaration, var x = x+1, variable/field name reuse and embedded assignments are run through bcl.Interpret and an evaluator with an environment chain (no slots); compile outcome with first-diagnostic position, output, blocks and runtime errors must agree.",
   note="Trusted: DESIGN §5.4 scoping rules. Reach is the generator's; counts of shadowing / self-reading initialisers / embedded assignments are reported.", ref="§6 C02"),
 "C03": dict(cat="exploration", tech="runtime monitoring: reference-model monitor with deep structural comparison of the returned []Block",
   text="Block-centred generated programs; the returned blocks are compared deeply (count, order, type, name, exact key set, values with Go type, children) with the reference model's, together with output and the error; blocks completed before a runtime error must still be returned.",
   note="Trusted: DESIGN §5.4 block rules.", ref="§6 C03"),
 "C04": dict(cat="exploration", tech="runtime monitoring: reference-model monitor over the exhaustive selector x target x candidates product plus random programs",
   text="The full product of selectors, targets, 0-4 candidates, interleaved other-type blocks, candidates defined after the statement and 1-3 bind statements, plus random programs with binds anywhere; Binding, warnings with positions and error class/position compared with the reference model.",
   note="Trusted: DESIGN §5.4 bind rules.", ref="§6 C04"),
 "C06": dict(cat="exploration", tech="runtime monitoring: crash/termination monitor in journalled worker processes + VM step hook (bounded logical progress) + goroutine-dump deadlock identification",
   text="Fixed lists scale programs to just below, at and above every implementation limit (sized exactly in code bytes for the jump distance), feed every invalid/extreme literal form in 8 contexts and every out-of-domain operand; random bytes, token soups and damaged generated programs add breadth. Every input goes through Parse+Execute, Interpret, Unmarshal and a file variant; a panic (also in the file variants' goroutines, which kills the worker and is found through the journal), a deadlock (from goroutine dumps) or more executed instructions than the program has refutes the property.",
   note="Inputs whose legitimate result would exhaust memory are skipped as the property states. A watchdog firing that is not confirmed when the case runs alone is inconclusive, not a violation.", ref="§6 C06"),
 "C09": dict(cat="exploration", tech="runtime monitoring: metamorphic monitor (parsed vs dump->load through 6 reader behaviours and every 2-partition) + independent decoder/encoder agreement",
   text="Every accepted program of a size-directed list (constants, identifiers, names, code and offsets across every varint class and the 4096-byte buffers) and of the generators is dumped, decoded by an independent codec, loaded back through hostile readers and executed; disassembly, output, blocks, binding, warnings, error text and the re-dump must be identical.",
   note="Trusted: Execute of the parsed program as reference; internal/bc as the written-down format.", ref="§6 C09"),
 "C10": dict(cat="exploration", tech="runtime monitoring: structural-invariant monitor (independent decoder + CFG dataflow checker) on the artefact of every compilation, cross-checked against executions through a VM step hook",
   text="The in-memory parts of every compiled program are decoded and checked along all CFG paths (tiling, RET, operand kinds, jump targets, equal operand/block depth on all in-edges, live slots); each execution is compared step by step (pc on a boundary, tos and blockTos equal to the static values) and run a second time with flipped switch variables so that jumps are seen in both directions.",
   note="Every path of every program the workload compiled, not of programs it did not produce. The opcode table is validated against the VM by the dynamic cross-check.", ref="§6 C10"),
 "C13": dict(cat="fault_enumeration", tech="runtime monitoring: crash monitor over every interruption point of every dump (exhaustive cut points, two reader behaviours, failing writer) + exhaustive header sweeps",
   text="Every proper prefix of each dump (exhaustive for dumps up to 4000 bytes; edges and buffer boundaries for larger ones) must be rejected with an error and without panic through a whole-slice and a one-byte reader; interrupted writes are produced by a failing writer; all 2^16 magic values and all 2^16 version pairs are tried.",
   note="Enumerates the crash points of a writer at byte granularity; assumes the complete dump loads (checked).", ref="§6 C13"),
 "C14": dict(cat="exploration", tech="runtime monitoring: offline checker over a recorded corpus (46 files incl. hand-assembled ones for every opcode/constant kind/varint class) + independent decoder/encoder on every fresh dump",
   text="Recorded files must load and execute to their recorded disassembly, output, blocks, binding and errors through two reader behaviours; every fresh dump must decode with the independently written-down format into exactly the program's parts and re-encode byte for byte, so a symmetric change of layout, numbering or encoding (invisible to round-trip tests) is caught.",
   note="The corpus was recorded once and cross-checked against a build of the pinned commit d0f6a51 (46/46 identical).", ref="§6 C14"),
 "C17": dict(cat="exploration", tech="runtime monitoring: recognizer monitor (independent strict recursive-descent recognizer with static rules run side by side with bcl.Parse on sentences and every single-token edit)",
   text="All token sequences of length <= 2, generated sentences with every single-token deletion/transposition/insertion/replacement over a 55-token vocabulary, random sequences and two-fault programs: accept/reject must agree with the recognizer, the first diagnostic must sit at the first non-viable token, Interpret must return no results on rejection, err != nil iff a diagnostic was written, and a later faulty statement must get its own diagnostic.",
   note="Trusted: the grammar of DESIGN §5.2 (pre-validated on 58M sequences); the unspecified 'not'-operand zone gives no verdict.", ref="§6 C17"),
 "C07": dict(cat="exploration", tech="runtime monitoring: metamorphic monitor (ParseFile under scripted readers vs Parse on the same bytes: error, diagnostics, Dump bytes), every 2-partition and page-boundary sweeps",
   text="For hand-picked inputs (every lexical-failure kind, multi-byte characters everywhere, two-character operators, escapes), the repository's testdata and generated programs under hostile layout: every 2-partition of inputs up to 400 bytes, one-byte reads, random partitions, zero-byte reads at every step position and offset, data with EOF, and the real 4096-byte page boundary swept across the tokens; error text, diagnostics and dump bytes must equal the whole-input parse.",
   note="Trusted: Parse on the whole input as reference. A hang is identified as a deadlock from goroutine dumps by the per-case watchdog.", ref="§6 C07"),
 "C08": dict(cat="exploration", tech="runtime monitoring: position monitor (decode check with an independent newline index + prediction from recognizer/reference model/renderer spans + line-table and positions-section invariants)",
   text="Every diagnostic is decoded back to a byte offset and checked against the source (newline count, quoted token text, at end); first compile diagnostics, runtime errors and warnings are predicted from the independent recognizer/evaluator and the renderer's token spans; the line table must equal the source's newline offsets; all of it again under chunked parsing and after dump and load, with sources padded across the read page and each varint class.",
   note="Trusted: the location rule of DESIGN §5.4.", ref="§6 C08"),
 "C11": dict(cat="exploration", tech="runtime monitoring: resource/termination monitor on scripted readers (close/read counters, goroutine-dump leak and deadlock identification, seeded perturbation through the verifPoint hook, bounded logical progress)",
   text="All reader scripts of up to 5 steps over 8 step kinds (37448; up to 4 steps in the quick tier) and random longer ones, paired with 10 input classes and three entry points, under delays in Read/Close/log writer and perturbation at the pipeline's suspension points: the call must return, Close must be called exactly once, no Read after Close, at most 4 data reads after a delivered lexical failure, bounded Read calls, no goroutine left blocked, a delivered read error returned.",
   note="Schedules are sampled (distinct interleaving signatures are reported), not enumerated. Verdicts are logical (counters, goroutine states); wall-clock only triggers inspection.", ref="§6 C11"),
 "C12": dict(cat="exploration", tech="runtime monitoring: Go race detector (-race build, reports counted from GORACE log files and deduplicated) + result-equality monitor for concurrent callers and a shared Prog",
   text="The pipeline is driven on many-error, valid and early-failure inputs in 1..64-byte chunks with perturbation so that diagnostics are formatted while the lexer updates the line table (overlap is confirmed from the event log); batches of 2/8/32 concurrent callers and 2/8/32 goroutines executing one shared Prog are compared with sequential results; any race report with a library frame is a violation.",
   note="Absence of reports holds for the executions run under the detector only.", ref="§6 C12"),
 "C20": dict(cat="exploration", tech="runtime monitoring: metamorphic monitor (canonical rendering vs hostile re-renderings of the same token sequence / AST: code, constants, results, diagnostic classes)",
   text="Each program is rendered canonically and 6-10 hostile ways (all separator kinds incl. none where legal, comments with arbitrary bytes ended by CR/LF/EOF, optional ';' toggled, redundant parentheses anywhere); instructions, constants, output, blocks, binding, error and diagnostic classes must be identical; string literals full of layout characters must reach the value byte for byte.",
   note="Whole-input parsing; the separator-needed predicate is derived from the token definitions, conservatively.", ref="§6 C20"),
 "C05": dict(cat="exploration", tech="runtime monitoring: round-trip monitor (harness-owned writer and matching rule; reflect.StructOf-generated and named struct types; bit-exact deep equality)",
   text="Generated struct types (1-12 fields, nesting to 4, tags, Name anywhere or absent, named and anonymous) with extreme and escape-heavy values are written as BCL under every admitted key spelling and shuffled order, unmarshalled through struct binding with every selector and slice binding into a junk-filled slice, and compared bit-exactly with the written value.",
   note="Ambiguous field-name sets are not generated. Trusted: the matching rule of DESIGN §6 C05.", ref="§6 C05"),
 "C15": dict(cat="exploration", tech="runtime monitoring: crash monitor + post-condition monitor (after nil: every block field found unchanged in the field the harness's own matching rule designates; after error: slice target equals its snapshot)",
   text="Generated bindings (nil, struct, slice; nil values, nested blocks, colliding keys, named children) crossed with derived, mutated (24 field kinds), wrong-kind, zoo (embedded/unexported/pointer/interface fields) and 28 hostile non-struct targets: Bind must not panic, may return nil only if everything was stored unchanged with its dynamic type, and must leave a slice target untouched on error.",
   note="When two keys designate one struct field only 'no panic' is claimed.", ref="§6 C15"),
 "C16": dict(cat="exploration", tech="runtime monitoring: repetition monitor (R in-process repetitions + fresh processes with GOMAXPROCS 1/2/16 + history variants A,B,A and mutated results), digest of everything observable",
   text="Cases chosen for order sensitivity (colliding keys, several named children into one field, several faulty fields, many constants, several diagnostics) and generated programs are run 30/200 times in one process and in fresh processes with different GOMAXPROCS and hash seeds; the digest (dump hash, diagnostics, output, blocks, binding, targets, error texts) must be identical; a Prog must dump the same before and after Execute and be unaffected by mutation of earlier results.",
   note="Go randomises map iteration per range statement, so in-process repetition exercises iteration order; schedules and seeds are sampled.", ref="§6 C16"),
 "C18": dict(cat="exploration", tech="runtime monitoring: process monitor on the built cmd/bcl (stdout/stderr/exit of child processes vs the library in-process, across equivalent argument vectors; documented exit statuses; bdump/bload reproduction)",
   text="For fixed and generated programs (succeeding, rejected, failing at run time) every subset of the four flags is spelled short/long/mixed/clustered/split with the file in every position, as '-' and omitted; stdout, stderr and exit status must equal the library's in-process result; 23 usage and I/O error cases must give status 2 / 1; --bdump must not change the outcome and --bload must reproduce it.",
   note="Every child has an explicit stdin and a watchdog; the binary is rebuilt from /repo on every run.", ref="§6 C18"),
 "C19": dict(cat="exploration", tech="runtime monitoring: metamorphic monitor (all 8 option combinations vs none, three routes) + VM hook ground truth for trace and independent decoder for disassembly",
   text="Accepted, rejected and runtime-failing programs run under all 8 combinations of disasm/trace/stats through Parse+Execute, Interpret and LoadProg+Execute: results, error, log and program output lines must not change and nothing may panic; the disassembly must list exactly the instruction boundaries, the trace exactly the executed pc sequence, as many as opsRead.",
   note="Programs whose own output looks like introspection text count for the result comparison only.", ref="§6 C19"),
}

NOT_YET = {}

ALL = ["C%02d" % i for i in range(1, 21)]

def main():
    checks = []
    for pid in ALL:
        if pid not in CLAIMED:
            continue
        c = CLAIMED[pid]
        checks.append({
            "property_id": pid,
            "quick_cmd": "./run.sh %s quick" % pid,
            "thorough_cmd": "./run.sh %s thorough" % pid,
            "evidence_file": "/verif/evidence/%s.json" % pid,
            "replay_cmd_template": "./run.sh replay {path}",
            "engine": "bclverif",
            "level_claimed": {"category": c["cat"], "text": c["text"], "design_ref": c["ref"]},
            "level_note": c["note"],
            "technique": c["tech"],
        })
    na = [{"property_id": pid, "reason": NOT_YET.get(pid, "check not built yet in this session (work in progress; the design in DESIGN.md §6 applies)")}
          for pid in ALL if pid not in CLAIMED]
    hooks_commits = subprocess.run(["git", "-C", "/repo", "log", "--format=%H %s"], capture_output=True, text=True).stdout.splitlines()
    src = [l.split()[0] for l in hooks_commits if " verif:" in l]
    m = {
        "version": 1,
        "setup_cmd": "./run.sh build",
        "hooks": {
            "guard": "verif",
            "enable": "go build -tags verif (the harness module replaces github.com/wkhere/bcl with /repo)",
            "baseline_off_cmd": "./run.sh baseline-off",
            "source_commits": src,
            "add_only": True,
        },
        "engines": [
            {"name": "bclverif", "path": "/verif/cmd/bclverif", "serves_properties": sorted(CLAIMED),
             "kind_free_text": "Go driver: sharded worker processes with journals; monitors = reference model (internal/lang), independent bytecode codec+verifier (internal/bc), reader scripts / goroutine monitor (internal/mon), Go race detector build"},
        ],
        "checks": checks,
        "notes": "Technique family: runtime monitoring. See DESIGN.md (sections 11-13: as built, results on the pinned tree, 238 seeded changes in six rounds). 14 genuine defects of the pinned tree were repaired by fix: commits in /repo and are recorded as fixed: entries in known_findings.json; there is no known (unrepaired) finding. The level_claimed texts give the core of each check; evidence/<id>.json carries the full rule incl. the workload extensions made after each round of seeded changes.",
        "not_applicable": na,
    }
    if not na:
        del m["not_applicable"]
    json.dump(m, open("/verif/MANIFEST.json", "w"), indent=1)
    print("wrote MANIFEST.json:", len(checks), "checks,", len(na), "not claimed")

main()
