#!/bin/bash
# scratchcheck.sh <seeded-dir> <tier> <check>...  : run checks against a scratch copy of /repo with the patch (does not touch /repo)
set -u
md=$1; tier=$2; shift 2
export GOFLAGS=-mod=mod GOPROXY=off GOSUMDB=off GOTOOLCHAIN=local CGO_ENABLED=1
S=/tmp/scratch_$$
mkdir -p $S
git -C /repo archive HEAD | tar -x -C $S --one-top-level=repo
(cd $S/repo && git init -q . && git apply $md/patch.diff) || { echo "PATCH DOES NOT APPLY"; rm -rf $S; exit 8; }
rsync -a --exclude .work --exclude .git --exclude seeded --exclude evidence /verif/ $S/verif/
mkdir -p $S/verif/evidence
sed -i "s#=> /repo#=> $S/repo#" $S/verif/go.mod
cd $S/verif
export VERIF_ROOT=$S/verif
mkdir -p .work/bin
go build -tags verif -o .work/bin/bclverif ./cmd/bclverif </dev/null || { echo BUILD FAILED; rm -rf $S; exit 3; }
for id in "$@"; do
  out=$(timeout 3600 .work/bin/bclverif check $id --tier $tier </dev/null 2>&1); rc=$?
  nv=$(echo "$out" | grep -c '^VIOLATION')
  echo "CHECK $id $tier: rc=$rc violations=$nv :: $(echo "$out" | grep -m1 -A2 '^VIOLATION' | tail -2 | tr '\n' ' ' | cut -c1-300)"
done
rm -rf $S
