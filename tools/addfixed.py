#!/usr/bin/env python3
"""addfixed.py <property> <commit> <signature> <what>  -- appends a fixed: entry to known_findings.json"""
import json, sys
prop, commit, sig, what = sys.argv[1:5]
p = '/verif/known_findings.json'
d = json.load(open(p))
d['findings'].append({"property": prop, "status": "fixed", "signature": sig, "commit": commit, "what": what,
                      "line": "fixed: property=%s %s %s" % (prop, commit, what)})
json.dump(d, open(p, 'w'), indent=1)
