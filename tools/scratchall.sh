#!/bin/bash
# tools/scratchall.sh <tier> Cxx [extra checks]  -- evaluates $MUTBASE/Cxx/mutants/{1,2} on scratch copies
tier=$1; id=$2; shift 2
for k in 1 2; do
  d=${MUTBASE:-/tmp/mut}/$id/mutants/$k
  [ -f $d/patch.diff ] || continue
  echo "=== $id mutant $k: $(head -3 $d/README.md 2>/dev/null | tr '\n' ' ' | cut -c1-160)"
  /verif/tools/scratchtry.sh $d $tier $id "$@" 2>&1 | grep -v '^ok\|^FAIL\|^---\|^    ' | cut -c1-330
done
