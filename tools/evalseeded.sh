#!/bin/bash
# tools/evalseeded.sh [name-prefix]   re-runs every kept seeded change against the checks that are
# recorded as catching it (meta.json caught_by), one after the other; /repo is restored after each.
cd "$(dirname "$(readlink -f "$0")")/.."
for d in seeded/${1:-}*/; do
  name=$(basename $d)
  checks=$(jq -r '.caught_by | join(" ")' $d/meta.json)
  tmp=$(mktemp -d /tmp/seeded.XXXX)
  cp $d/patch.diff $tmp/patch.diff
  for f in $d/*_test.go.txt; do [ -f "$f" ] && cp "$f" "$tmp/$(basename ${f%.txt})"; done
  out=$(tools/trymutant.sh $tmp quick $checks 2>&1)
  rm -rf $tmp
  base=$(echo "$out" | grep -c 'baseline suite with patch: rc=0')
  demo=$(echo "$out" | grep 'demo with patch' | grep -c 'rc=[1-9]')
  caught=$(echo "$out" | grep '^CHECK' | grep -c 'rc=1 violations=[1-9]')
  total=$(echo "$out" | grep -c '^CHECK')
  echo "$name baseline_ok=$base demo_fails=$demo caught=$caught/$total"
done
