#!/usr/bin/env python3
"""mkprompts.py <round>: writes the briefs for a round of seeded-change agents to /tmp/mutprompts<round>/Cxx.txt
(each agent gets only the property text, its own scratch worktree /tmp/mut<round>/Cxx, two theme areas and the
names of the ideas already used).  Worktrees: git -C /repo worktree add --detach /tmp/mut<round>/Cxx HEAD"""
import json,os,glob,random
import sys
ROUND=int(sys.argv[1])
random.seed(ROUND)
props=[json.loads(l) for l in open('/verif/properties.jsonl')]
used=[]
for d in sorted(glob.glob('/verif/seeded/*')):
    name=os.path.basename(d); parts=name.split('-')
    pid=parts[0]; idea=' '.join(p for p in parts[1:] if p not in ('r2','r3','r4','r5','r6','r7','r8','1','2'))
    used.append(f"  - [{pid}] {idea}")
allused='\n'.join(used)
themes=[
 "state that survives a call: package-level variables, sync.Pool, caches keyed by something too coarse, lazily built tables; a second or third call (or a call of a different kind in between) behaves differently from the first",
 "what comes back together with an error: partial results, which of several errors wins, error counts and limits, messages built from stale data, a later diagnostic suppressed or duplicated",
 "numbers: int64 extremes, negative zero, NaN and infinities, float formatting and parsing, exponent and hexadecimal forms, very long numerals, integer division and modulo of negative operands",
 "text: escapes in string literals, invalid UTF-8, byte order marks, CR and CRLF line ends, NUL bytes, tabs, very long lines, multi-byte characters at the edge of a buffer or of a token",
 "how control flow is compiled: short-circuit jumps, nested and/or/not chains, local slots reused after a block ends, POP/POPN at scope exit, blocks nested near the limits, expressions statements whose value is discarded",
 "bind selectors and binding targets working together: first/last/all/one with struct, slice and pointer targets, nested blocks, named versus unnamed blocks, several binds in one program, a bind after an error",
 "position accounting: line and column after tabs, CR, multi-byte characters and comments, positions at the end of input, in the second chunk of a file, of tokens spanning lines, positions stored in dumps",
 "the concurrent machinery of the file entry points: buffered channel capacities, select with several ready cases, early return paths, who waits for whom at shutdown, behaviour when the input keeps producing after the parser has given up",
 "the seam between two mechanisms of the library: source positions after dump and load, diagnostics under chunked reading, binding after a runtime error, tracing or disassembly of loaded programs, variables next to fields of the same name",
 "option plumbing and the command line tool: which writer gets what, flags in odd orders, exit codes, names derived for dump files, behaviour when a writer or file is unusable",
]
for p in props:
    pid=p['id']; d='/tmp/mut%d/' % ROUND + ''+pid
    th=random.sample(themes,2)
    txt=f"""You are working in a scratch git worktree of the Go library wkhere/bcl at {d} (BCL: a small HCL-like configuration language with a streaming lexer, a Pratt parser emitting bytecode, a stack VM, bytecode dump/load, reflection-based struct binding and a small CLI in cmd/bcl). Work ONLY inside {d}. Do not read, list or touch anything under /verif or /repo or other directories under /tmp — your work must be independent of anything there. Do NOT use `git stash` (the stash is shared between worktrees); to undo a change use `git apply -R <patch>` or `git checkout -- <file>`.

A property that the library is supposed to satisfy:

TITLE: {p['title']}

STATEMENT: {p['statement']}

IT MUST HOLD: {p['quantifier']['text']}

YOUR TASK: produce TWO different, independent changes to the library's source code (non-test .go files; leave verif_on.go / verif_off.go and *_test.go alone) each of which BREAKS this property — clearly, in a way anyone reading the property statement would agree is a violation of THIS property — while the code (a) still compiles (also with `-tags verif`) and (b) still passes the existing test suite, unedited:
    cd {d} && GOFLAGS=-mod=mod GOPROXY=off GOSUMDB=off GOTOOLCHAIN=local go test -vet=off -count=1 ./... </dev/null
Make them realistic bugs of the kind a maintainer could introduce (a refactoring slip, an optimisation, cache or fast path that is slightly wrong, an off-by-one, a wrong or missing condition, a missing case, two statements reordered, a lock dropped or taken too late, a wrong buffer size, an error value dropped, state leaking between calls). They must be SUBTLE and HARD TO HIT: the breakage should need something specific to manifest. A tester that throws hundreds of thousands of random programs, random chunkings, boundary-sized inputs, failing writers and readers at the library should be unlikely to hit it by luck. Do not rely on hash collisions or on astronomically unlikely coincidences: the trigger must be something a thoughtful person could construct from the property text.

To spread the ideas, look for your two changes in these two areas in particular:
  (A) {th[0]}
  (B) {th[1]}

Several rounds of such changes have already been made by others. Do NOT repeat any of these ideas or their close relatives (find different code, different triggers):
{allused}

For each change k in {{1,2}} create:
  {d}/mutants/k/patch.diff   — `git diff` against HEAD; must apply cleanly with `git -C {d} apply mutants/k/patch.diff`
  {d}/mutants/k/demo_test.go — a Go test file (package bcl, so it may use internals; for the CLI a test that builds ./cmd/bcl into a temp dir and runs it with stdin from /dev/null) that FAILS with the change applied and PASSES without it. Keep it in mutants/k/; to run it copy it next to the sources temporarily (e.g. as zz_demo_test.go), run `go test -vet=off -count=1 -run <TestName> . </dev/null`, and remove it again. The demo must finish within a minute.
  {d}/mutants/k/README.md    — 5-10 lines: what the change is, which part of the property it breaks, and what exactly is needed for the breakage to manifest.
Also create {d}/mutants/go.mod containing just the line `module mutants` so that `go test ./...` in the worktree root does not pick up your demo files.

Verify everything yourself: with the patch applied the existing suite passes and the demo fails; without the patch the demo passes. When you are done, leave the worktree clean at HEAD (patch NOT applied, no extra files except the mutants/ directory). Keep your messages short; do not paste large files into your answers. The machine has no network. Any command that reads standard input hangs forever here: always redirect stdin from /dev/null and give long commands a timeout. In your final answer list the paths and give two or three lines per change describing it and its trigger.
"""
    open('/tmp/mutprompts%d/%s.txt' % (ROUND, pid),'w').write(txt)
print('ok')
