#!/usr/bin/env python3
"""mkprompts.py <round>: writes the briefs for a round of seeded-change agents to /tmp/mutprompts<round>/Cxx.txt
(each agent gets only the property text, its own scratch worktree /tmp/mut<round>/Cxx, two theme areas and the
names of the ideas already used).  Worktrees: git -C /repo worktree add --detach /tmp/mut<round>/Cxx HEAD"""
import json,os,glob,random
import sys
ROUND=int(sys.argv[1])
random.seed(ROUND)
props=[json.loads(l) for l in open('/verif/properties.jsonl')]
used=[]
for d in sorted(glob.glob('/verif/seeded/*')):
    name=os.path.basename(d); parts=name.split('-')
    pid=parts[0]; idea=' '.join(p for p in parts[1:] if p not in ('r2','r3','r4','r5','r6','1','2'))
    used.append(f"  - [{pid}] {idea}")
allused='\n'.join(used)
themes=[
 "the seam between two mechanisms of the library: source positions after dump and load, diagnostics under chunked reading, binding after a runtime error, tracing or disassembly of loaded programs, variables next to fields of the same name",
 "goroutine lifecycle and channel protocol of the file-reading entry points: who closes what and when, error precedence, what happens to data that arrives late or together with an error",
 "grammar and lexer corner cases: statement separators, comments at the very end of input, keywords used as field names or block types, assignments in unusual positions, adjacent tokens without blanks, numbers followed by letters",
 "type rules of the operators: int/float promotion, comparison across types, coercion on the right of '+', what and/or return, evaluation order and side effects of embedded assignments",
 "the bytecode encoding: varint class boundaries, jump operands, the positions table, the line table, typed constants, name and version header",
 "reflection binding details: tags, embedded structs, pointer and interface fields, name matching, slices versus structs, what is left in the target on error",
 "option plumbing and the command line tool: which writer gets what, flags in odd orders, exit codes, names derived for dump files, behaviour when a writer or file is unusable",
 "buffers and resource handling: buffer sizes and growth, reuse between calls, what is retained after a call returns, limits that are checked too late or one off",
]
for p in props:
    pid=p['id']; d='/tmp/mut%d/' % ROUND + ''+pid
    th=random.sample(themes,2)
    txt=f"""You are working in a scratch git worktree of the Go library wkhere/bcl at {d} (BCL: a small HCL-like configuration language with a streaming lexer, a Pratt parser emitting bytecode, a stack VM, bytecode dump/load, reflection-based struct binding and a small CLI in cmd/bcl). Work ONLY inside {d}. Do not read, list or touch anything under /verif or /repo or other directories under /tmp — your work must be independent of anything there. Do NOT use `git stash` (the stash is shared between worktrees); to undo a change use `git apply -R <patch>` or `git checkout -- <file>`.

A property that the library is supposed to satisfy:

TITLE: {p['title']}

STATEMENT: {p['statement']}

IT MUST HOLD: {p['quantifier']['text']}

YOUR TASK: produce TWO different, independent changes to the library's source code (non-test .go files; leave verif_on.go / verif_off.go and *_test.go alone) each of which BREAKS this property — clearly, in a way anyone reading the property statement would agree is a violation of THIS property — while the code (a) still compiles (also with `-tags verif`) and (b) still passes the existing test suite, unedited:
    cd {d} && GOFLAGS=-mod=mod GOPROXY=off GOSUMDB=off GOTOOLCHAIN=local go test -vet=off -count=1 ./... </dev/null
Make them realistic bugs of the kind a maintainer could introduce (a refactoring slip, an optimisation, cache or fast path that is slightly wrong, an off-by-one, a wrong or missing condition, a missing case, two statements reordered, a lock dropped or taken too late, a wrong buffer size, an error value dropped, state leaking between calls). They must be SUBTLE and HARD TO HIT: the breakage should need something specific to manifest. A tester that throws hundreds of thousands of random programs, random chunkings, boundary-sized inputs, failing writers and readers at the library should be unlikely to hit it by luck. Do not rely on hash collisions or on astronomically unlikely coincidences: the trigger must be something a thoughtful person could construct from the property text.

To spread the ideas, look for your two changes in these two areas in particular:
  (A) {th[0]}
  (B) {th[1]}

Several rounds of such changes have already been made by others. Do NOT repeat any of these ideas or their close relatives (find different code, different triggers):
{allused}

For each change k in {{1,2}} create:
  {d}/mutants/k/patch.diff   — `git diff` against HEAD; must apply cleanly with `git -C {d} apply mutants/k/patch.diff`
  {d}/mutants/k/demo_test.go — a Go test file (package bcl, so it may use internals; for the CLI a test that builds ./cmd/bcl into a temp dir and runs it with stdin from /dev/null) that FAILS with the change applied and PASSES without it. Keep it in mutants/k/; to run it copy it next to the sources temporarily (e.g. as zz_demo_test.go), run `go test -vet=off -count=1 -run <TestName> . </dev/null`, and remove it again. The demo must finish within a minute.
  {d}/mutants/k/README.md    — 5-10 lines: what the change is, which part of the property it breaks, and what exactly is needed for the breakage to manifest.
Also create {d}/mutants/go.mod containing just the line `module mutants` so that `go test ./...` in the worktree root does not pick up your demo files.

Verify everything yourself: with the patch applied the existing suite passes and the demo fails; without the patch the demo passes. When you are done, leave the worktree clean at HEAD (patch NOT applied, no extra files except the mutants/ directory). Keep your messages short; do not paste large files into your answers. The machine has no network. Any command that reads standard input hangs forever here: always redirect stdin from /dev/null and give long commands a timeout. In your final answer list the paths and give two or three lines per change describing it and its trigger.
"""
    open('/tmp/mutprompts%d/%s.txt' % (ROUND, pid),'w').write(txt)
print('ok')
