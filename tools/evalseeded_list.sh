#!/bin/bash
# tools/evalseeded_list.sh <jobs> < names   like evalseeded_par.sh for the seeded changes named on standard input
cd "$(dirname "$(readlink -f "$0")")/.."
jobs=${1:-4}
one() {
  d=seeded/$1; name=$1
  checks=$(jq -r '.caught_by | join(" ")' $d/meta.json)
  tmp=$(mktemp -d /tmp/seededp.XXXX)
  cp $d/patch.diff $tmp/patch.diff
  for f in $d/*_test.go.txt; do [ -f "$f" ] && cp "$f" "$tmp/$(basename ${f%.txt})"; done
  out=$(tools/scratchtry.sh $tmp quick $checks 2>&1)
  rm -rf $tmp
  base=$(echo "$out" | grep -c 'baseline suite with patch: rc=0')
  demo=$(echo "$out" | grep 'demo with patch' | grep -c 'rc=[1-9]')
  caught=$(echo "$out" | grep '^CHECK' | grep -c 'rc=1 violations=[1-9]')
  total=$(echo "$out" | grep -c '^CHECK')
  echo "$name baseline_ok=$base demo_fails=$demo caught=$caught/$total"
}
export -f one
xargs -P $jobs -I{} bash -c 'one {}'
