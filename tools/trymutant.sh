#!/bin/bash
# tools/trymutant.sh <mutant-dir> <tier> <check-id>...
# Applies <mutant-dir>/patch.diff to /repo, confirms: baseline suite passes, demo fails with / passes without
# the patch; runs the given checks; ALWAYS restores /repo. Prints a summary line per step.
set -u
md=$1; tier=$2; shift 2
export GOFLAGS=-mod=mod GOPROXY=off GOSUMDB=off GOTOOLCHAIN=local
cd /repo
if [ -n "$(git status --porcelain)" ]; then echo "REPO NOT CLEAN"; exit 9; fi
restore() { cd /repo; git checkout -- . ; rm -f zz_demo_test.go; git clean -fdq -e mutants >/dev/null 2>&1; }
trap restore EXIT
demo=$(ls $md/*_test.go 2>/dev/null | head -1)
pat=$(grep -oh 'func Test[A-Za-z0-9_]*' "$demo" 2>/dev/null | sed 's/func //' | paste -sd'|')
rundemo() { cp "$demo" /repo/zz_demo_test.go; (cd /repo && timeout 600 go test -vet=off -count=1 -run "^($pat)\$" . </dev/null >/tmp/demo.out 2>&1); rc=$?; rm -f /repo/zz_demo_test.go; return $rc; }
if [ -n "$demo" ]; then rundemo; echo "demo on clean tree: rc=$? (want 0)"; fi
git apply "$md/patch.diff" || { echo "PATCH DOES NOT APPLY"; exit 8; }
timeout 600 go build ./... </dev/null || echo "BUILD FAILS"
timeout 900 go test -vet=off -count=1 ./... </dev/null >/tmp/base.out 2>&1; echo "baseline suite with patch: rc=$? (want 0)"
if [ -n "$demo" ]; then rundemo; echo "demo with patch: rc=$? (want non-zero)"; tail -5 /tmp/demo.out | cut -c1-200; fi
cd /verif
for id in "$@"; do
  out=$(timeout 3600 ./run.sh $id $tier 2>&1); rc=$?
  nv=$(echo "$out" | grep -c '^VIOLATION')
  echo "CHECK $id $tier: rc=$rc violations=$nv :: $(echo "$out" | grep -m1 -A2 '^VIOLATION' | tail -2 | tr '\n' ' ' | cut -c1-260)"
done
