#!/usr/bin/env python3
"""keepmutant.py <src-mutant-dir> <seeded-name> <property> <caught_by csv or NONE> <missed_by csv or -> [note]
Copies patch.diff, the demo and README into /verif/seeded/<name>/ and writes meta.json."""
import sys, os, shutil, json, glob
src, name, prop, caught, missed = sys.argv[1:6]
note = sys.argv[6] if len(sys.argv) > 6 else ""
dst = '/verif/seeded/' + name
os.makedirs(dst, exist_ok=True)
shutil.copy(src + '/patch.diff', dst + '/patch.diff')
for f in glob.glob(src + '/*_test.go') + glob.glob(src + '/*.go') + glob.glob(src + '/*.sh'):
    # demos are kept with a .txt suffix so that they never become part of a Go package here
    shutil.copy(f, dst + '/' + os.path.basename(f) + '.txt')
readme = ''
if os.path.exists(src + '/README.md'):
    shutil.copy(src + '/README.md', dst + '/README.md')
    readme = open(src + '/README.md').read()
meta = {
    "breaks_property": prop,
    "origin": "written by a fresh sub-agent that was given only the property text and a scratch worktree of /repo",
    "needs_to_manifest": readme.strip()[:1500],
    "confirmed": "tools/trymutant.sh: patch applies to /repo HEAD, builds, the unedited 405-test suite passes with it, the demonstration fails with it and passes without it",
    "checks_run": (caught.split(',') if caught != 'NONE' else []) + ([m for m in missed.split(',')] if missed != '-' else []),
    "caught_by": caught.split(',') if caught != 'NONE' else [],
    "not_caught_by": missed.split(',') if missed != '-' else [],
    "note": note,
}
json.dump(meta, open(dst + '/meta.json', 'w'), indent=1)
print('kept', dst)
