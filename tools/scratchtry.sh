#!/bin/bash
# tools/scratchtry.sh <mutant-dir> <tier> <check-id>...
# Like trymutant.sh, but on a scratch copy of /repo HEAD and of /verif under /tmp (never touches /repo):
# used for development while /repo is busy; the recorded confirmation is still done with trymutant.sh.
set -u
md=$(readlink -f $1); tier=$2; shift 2
export GOFLAGS=-mod=mod GOPROXY=off GOSUMDB=off GOTOOLCHAIN=local CGO_ENABLED=1
S=/tmp/scratch_$$
trap 'rm -rf $S' EXIT
mkdir -p $S/repo
git -C /repo archive HEAD | tar -x -C $S/repo
cd $S/repo
demo=$(ls $md/*_test.go 2>/dev/null | head -1)
pat=$(grep -oh 'func Test[A-Za-z0-9_]*' "$demo" 2>/dev/null | sed 's/func //' | paste -sd'|')
rundemo() { cp "$demo" zz_demo_test.go; timeout 600 go test -vet=off -count=1 -run "^($pat)\$" . </dev/null >$S/demo.out 2>&1; rc=$?; rm -f zz_demo_test.go; return $rc; }
if [ -n "$demo" ]; then rundemo; echo "demo on clean tree: rc=$? (want 0)"; fi
git init -q . ; git apply "$md/patch.diff" || { echo "PATCH DOES NOT APPLY"; exit 8; }
timeout 600 go build ./... </dev/null || echo "BUILD FAILS"
timeout 900 go test -vet=off -count=1 ./... </dev/null >$S/base.out 2>&1; echo "baseline suite with patch: rc=$? (want 0)"
if [ -n "$demo" ]; then rundemo; echo "demo with patch: rc=$? (want non-zero)"; tail -5 $S/demo.out | cut -c1-200; fi
if [ -n "${SCRATCH_VERIF_HEAD:-}" ]; then
  # the committed state of /verif (so that edits in progress there do not matter)
  mkdir -p $S/verif; git -C /verif archive HEAD -- . ':!seeded' ':!evidence' | tar -x -C $S/verif
else
  rsync -a --exclude .work --exclude .git --exclude seeded --exclude evidence --exclude replays /verif/ $S/verif/
fi
mkdir -p $S/verif/evidence $S/verif/.work/bin
sed -i "s#=> /repo#=> $S/repo#" $S/verif/go.mod
cd $S/verif
export VERIF_ROOT=$S/verif
B=.work/bin
go build -tags verif -o $B/bclverif ./cmd/bclverif </dev/null || { echo BUILD FAILED; exit 3; }
for id in "$@"; do
  case "$id" in
    C12) go build -tags verif -race -o $B/bclverif-race ./cmd/bclverif </dev/null ;;
    C07|C09|C11) [ "$tier" = thorough ] && go build -tags verif -race -o $B/bclverif-race ./cmd/bclverif </dev/null ;;
    C18) (cd $S/repo && go build -o $S/verif/$B/bcl ./cmd/bcl </dev/null) ;;
  esac
  out=$(timeout 3600 $B/bclverif check $id --tier $tier </dev/null 2>&1); rc=$?
  nv=$(echo "$out" | grep -c '^VIOLATION')
  echo "CHECK $id $tier: rc=$rc violations=$nv :: $(echo "$out" | grep -m1 -A2 '^VIOLATION' | tail -2 | tr '\n' ' ' | cut -c1-260)"
done
