#!/bin/bash
# tools/sweep.sh <tier> <seed>...   runs every check at each seed; prints one line per run
tier=$1; shift
cd "$(dirname "$(readlink -f "$0")")/.."
for seed in "$@"; do
  for id in C01 C02 C03 C04 C05 C06 C07 C08 C09 C10 C11 C12 C13 C14 C15 C16 C17 C18 C19 C20; do
    start=$(date +%s)
    out=$(VERIF_SEED=$seed ./run.sh $id $tier 2>&1); rc=$?
    end=$(date +%s)
    echo "seed=$seed $id rc=$rc wall=$((end-start))s $(echo "$out" | grep -c '^VIOLATION') violations $(echo "$out" | grep -o 'inconclusive=[0-9]*' | head -1)"
    [ $rc -ne 0 ] && echo "$out" | grep -A3 '^VIOLATION\|INCONCLUSIVE' | head -12 | cut -c1-300
  done
done
exit 0
