#!/bin/bash
# tools/evalseeded_par.sh <jobs> [name-prefix]   like evalseeded.sh, but every seeded change is evaluated on its own
# scratch copy of /repo HEAD and of /verif under /tmp (tools/scratchtry.sh), <jobs> at a time; /repo is never touched.
cd "$(dirname "$(readlink -f "$0")")/.."
jobs=${1:-4}; prefix=${2:-}
one() {
  d=$1; name=$(basename $d)
  checks=$(jq -r '.caught_by | join(" ")' $d/meta.json)
  tmp=$(mktemp -d /tmp/seededp.XXXX)
  cp $d/patch.diff $tmp/patch.diff
  for f in $d/*_test.go.txt; do [ -f "$f" ] && cp "$f" "$tmp/$(basename ${f%.txt})"; done
  out=$(tools/scratchtry.sh $tmp quick $checks 2>&1)
  rm -rf $tmp
  base=$(echo "$out" | grep -c 'baseline suite with patch: rc=0')
  demo=$(echo "$out" | grep 'demo with patch' | grep -c 'rc=[1-9]')
  caught=$(echo "$out" | grep '^CHECK' | grep -c 'rc=1 violations=[1-9]')
  total=$(echo "$out" | grep -c '^CHECK')
  echo "$name baseline_ok=$base demo_fails=$demo caught=$caught/$total"
}
export -f one
ls -d seeded/${prefix}*/ | xargs -P $jobs -I{} bash -c 'one {}'
