#!/bin/bash
# run.sh <id> <tier>   | run.sh build | run.sh replay <file> | run.sh baseline-off
# Always rebuilds the driver from /repo's current working tree (replace => /repo).
set -u
cd "$(dirname "$(readlink -f "$0")")"
export VERIF_ROOT="$PWD"
export GOFLAGS=-mod=mod GOPROXY=off GOSUMDB=off GOTOOLCHAIN=local CGO_ENABLED=1
BIN="$VERIF_ROOT/.work/bin"
mkdir -p "$BIN"

build() {
  go build -tags verif -o "$BIN/bclverif" ./cmd/bclverif </dev/null || { echo "BUILD FAILED (plain)"; return 3; }
}
build_race() {
  go build -tags verif -race -o "$BIN/bclverif-race" ./cmd/bclverif </dev/null || { echo "BUILD FAILED (race)"; return 3; }
}
build_cli() {
  (cd /repo && go build -o "$BIN/bcl" ./cmd/bcl </dev/null) || { echo "BUILD FAILED (cmd/bcl)"; return 3; }
}

case "${1:-}" in
  build)
    build && build_race && build_cli ;;
  baseline-off)
    cd /repo && go test -vet=off -count=1 ./... </dev/null ;;
  replay)
    build || exit 3
    exec "$BIN/bclverif" replay "$2" </dev/null ;;
  C*)
    id="$1"; tier="${2:-${VERIF_TIER:-quick}}"
    build || exit 3
    case "$id" in
      C12) build_race || exit 3 ;;
      C07|C09|C11) [ "$tier" = thorough ] && { build_race || exit 3; } ;;
      C18) build_cli || exit 3 ;;
    esac
    exec "$BIN/bclverif" check "$id" --tier "$tier" </dev/null ;;
  *)
    echo "usage: run.sh <Cnn> [quick|thorough] | build | replay <file> | baseline-off"; exit 3 ;;
esac
