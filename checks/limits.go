package checks

import (
	"fmt"
	"strings"

	"github.com/wkhere/bcl"

	"verif/internal/core"
)

// limitCase: a program that brings the machine to (or just beyond) one of its limits and performs one kind of
// statement or runtime event there. Every program starts with the completed toplevel block
// `def t0 "first" { done = 1 }`.
type limitCase struct {
	src, ctx, event string
	bindOfT0        string // "", "struct" or "slice": the event is a bind of t0 that selects the first block
}

const limitPrefix = "def t0 \"first\" { done = 1 }\n"

// events usable inside a block that has a variable lv and a field ff
var limitEventsInBlock = []struct{ name, text, bind string }{
	{"unresolved_identifier", "y = nosuch", ""},
	{"division_by_zero", "y = 1 / 0", ""},
	{"type_error", "y = 1 - \"s\"", ""},
	{"negative_repetition", "y = \"s\" * (0-1)", ""},
	{"duplicate_child", "def c {}\ndef c {}", ""},
	{"one_more_named_block", "def c \"n\" { z = 1 }", ""},
	{"print_field", "print ff", ""},
	{"type_and_name", "print TYPE + NAME", ""},
	{"assignment_to_variable", "eval lv = lv + 1", ""},
	{"short_circuit_over_unresolved", "y = ff and nosuch", ""},
	{"bind_struct", "bind t0 -> struct", "struct"},
	{"bind_all_slice", "bind t0:all -> slice", "slice"},
	{"bind_of_unknown_type", "bind nosuch -> struct", ""},
	{"two_binds", "bind t0:first -> slice\nbind t0:last -> struct", "struct"},
	{"one_more_variable", "var nv = 1\ny = nv", ""},
	{"nested_expression", "y = ((1 + 2) * (3 + 4)) < (5 - (6 / 7))", ""},
	{"inherited_field_read", "y = done0", ""},
}

var limitEventsToplevel = []struct{ name, text, bind string }{
	{"bind_struct", "bind t0 -> struct", "struct"},
	{"bind_all_slice", "bind t0:all -> slice", "slice"},
	{"bind_first_then_last", "bind t0:first -> struct\nbind t0:last -> slice", "slice"},
	{"bind_of_unknown_type", "bind nosuch -> struct", ""},
	{"print_variable", "print w0", ""},
	{"assignment", "eval w0 = 2", ""},
	{"block_reading_variables", "def z { y = w0 }", ""},
	{"block_with_unresolved", "def z { y = nosuch }", ""},
	{"division_by_zero", "print 1 / 0", ""},
}

func limitEventCases() []limitCase {
	var l []limitCase
	for _, ev := range limitEventsInBlock {
		// (a) blocks nested n deep
		for _, n := range []int{14, 15, 16, 17} {
			var b strings.Builder
			b.WriteString(limitPrefix)
			for k := 0; k < n; k++ {
				fmt.Fprintf(&b, "def n%d \"n%d\" { var lv = %d\nff = %d\ndone%d = %d\n", k, k, k, k, k, k)
			}
			b.WriteString(ev.text + "\n" + strings.Repeat("}\n", n) + "print 9\n")
			l = append(l, limitCase{b.String(), fmt.Sprintf("blocks_nested_%d", n), ev.name, ev.bind})
		}
		// (b) nv variables alive in one block
		for _, nv := range []int{1021, 1022, 1023, 1024} {
			var b strings.Builder
			b.WriteString(limitPrefix + "def b { ff = 5\ndone0 = 0\nvar lv = 7\n")
			for j := 1; j < nv; j++ {
				fmt.Fprintf(&b, "var w%d\n", j)
			}
			b.WriteString(ev.text + "\n}\nprint 9\n")
			l = append(l, limitCase{b.String(), fmt.Sprintf("%d_variables_in_a_block", nv), ev.name, ev.bind})
		}
	}
	for _, ev := range limitEventsToplevel {
		// (c) nv toplevel variables
		for _, nv := range []int{1021, 1022, 1023, 1024} {
			var b strings.Builder
			b.WriteString(limitPrefix)
			for j := 0; j < nv; j++ {
				fmt.Fprintf(&b, "var w%d = %d\n", j, j%5)
			}
			b.WriteString(ev.text + "\nprint 9\n")
			l = append(l, limitCase{b.String(), fmt.Sprintf("%d_toplevel_variables", nv), ev.name, ev.bind})
		}
	}
	return l
}

// limitCasesCheck: at each implementation limit, every kind of statement and runtime event: the toplevel block
// completed before it is returned whatever happens then (and the binding, when the event is a successful bind of it)
func limitCasesCheck(c *core.Ctx, onlyBinds bool) {
	// at each implementation limit, every kind of statement and runtime event: the toplevel block completed
	// before it is returned whatever happens then (and the binding, when the event is a successful bind of it)
	for k, lc := range limitEventCases() {
		i := int64(50000000 + k)
		if !c.Mine(i) || (onlyBinds && !strings.HasPrefix(lc.event, "bind") && lc.event != "two_binds") {
			continue
		}
		c.Begin(i)
		c.NoteInput("src", []byte(lc.src))
		if _, _, perr, ppan, _ := ParseOnly([]byte(lc.src), "limit"); perr != nil || ppan != "" {
			c.Count("limit_programs_rejected_at_compile_time", 1)
			continue // beyond a compile-time limit (C06 looks at those)
		}
		res := InterpretReused([]byte(lc.src))
		c.Eval(1)
		det := map[string]any{"context": lc.ctx, "event": lc.event, "error": fmt.Sprint(res.Err), "blocks": core.Trunc(canonBlocks(res.Blocks), 600), "source_tail": lc.src[max(0, len(lc.src)-300):]}
		if res.Panic != "" {
			c.Violation(panicSig(res.Panic, res.Stack), "panic at a limit ("+lc.ctx+", "+lc.event+"): "+res.Panic, det)
			continue
		}
		want := bcl.Block{Type: "t0", Name: "first", Fields: map[string]any{"done": 1}}
		if len(res.Blocks) == 0 || canonBlocks(res.Blocks[:1]) != canonBlocks([]bcl.Block{want}) {
			c.Violation("completed-block-not-returned", fmt.Sprintf("%s, %s: the toplevel block completed first is not (or not unchanged) in the result (error: %v)", lc.ctx, lc.event, res.Err), det)
			continue
		}
		if res.Err == nil && lc.bindOfT0 != "" {
			wantB := canonBinding(bcl.StructBinding{Value: want})
			if lc.bindOfT0 == "slice" {
				wantB = canonBinding(bcl.SliceBinding{Value: []bcl.Block{want}})
			}
			if canonBinding(res.Binding) != wantB {
				c.Violation("binding-at-a-limit", fmt.Sprintf("%s, %s: binding %s, expected %s", lc.ctx, lc.event, core.Trunc(canonBinding(res.Binding), 300), wantB), det)
				continue
			}
			c.Count("bindings_at_a_limit_compared", 1)
		}
		if res.Err != nil {
			c.Count("limit_programs_ending_in_a_runtime_error_with_the_completed_block_returned", 1)
		} else {
			c.Count("limit_programs_succeeding", 1)
		}
		c.Nontrivial(core.Hash(lc.src))
	}
}
