package checks

import (
	"bytes"
	"errors"
	"fmt"
	"math/rand"
	"reflect"

	"github.com/wkhere/bcl"

	"verif/internal/core"
	"verif/internal/lang"
)

// refProfile drives one reference-model check: generate programs with cfg,
// run them through the real Interpret, compare with the reference model.
type refProfile struct {
	cfg     func(r *rand.Rand) lang.GenCfg
	layout  func(r *rand.Rand) lang.LayoutOpts
	quickN  int
	thorN   int
	nontriv func(cs *Case) bool
	extra   func(c *core.Ctx, i int64, cs *Case, r ImplResult, g *lang.Gen)
	fixed   func(c *core.Ctx, run func(i int64, p *lang.Program, tag string)) int64 // fixed case list, returns number of cases used
}

func calmLayout(r *rand.Rand) lang.LayoutOpts {
	switch r.Intn(4) {
	case 0:
		return lang.LayoutOpts{}
	case 1:
		return lang.LayoutOpts{StmtNewlines: true}
	default:
		return lang.LayoutOpts{Hostile: true, Newlines: true, Comments: r.Intn(2) == 0, TouchProb: 30, LeadTrail: true}
	}
}

// the previous case of this worker and what the library returned for it (see runRefProfile)
var (
	keptCase *Case
	keptRes  ImplResult
)

func runRefProfile(c *core.Ctx, pf *refProfile) {
	n := int64(c.Pick(pf.quickN, pf.thorN))
	runOne := func(i int64, p *lang.Program, g *lang.Gen, tag string) {
		r := c.Rand(i)
		cs, bad := BuildCase(p, pf.layout(r), c, i)
		if bad != "" {
			c.Inconclusive("harness: " + bad)
			return
		}
		c.NoteInput("src", cs.Laid.Src)
		if cs.Oc != nil && cs.Oc.TooLarge {
			// excluded by the properties (result would exhaust memory): not run at all
			c.Unspecified()
			return
		}
		// the call gets its own copy of the input, which is overwritten as soon as the call has
		// returned: results must not refer to the caller's buffer
		in := append([]byte{}, cs.Laid.Src...)
		res := InterpretReused(in)
		for k := range in {
			in[k] = '#'
		}
		c.Eval(1)
		mm, unspec := CompareInterpret(cs, res)
		if unspec {
			c.Unspecified()
		}
		if mm != nil {
			c.Violation(mm.Sig, mm.What, detailOf(cs, res))
			return
		}
		// the result of the previous call is still the caller's: whatever this call did, it must not have changed
		if keptCase != nil && keptCase.Oc != nil {
			if d := blocksEq(keptCase.Oc.Blocks, keptRes.Blocks); d != "" {
				c.Violation("earlier-result-changed-by-later-call", "the blocks returned by the previous call changed while this call ran: "+d,
					map[string]any{"earlier_source": core.Trunc(string(keptCase.Laid.Src), 1500), "this_source": core.Trunc(string(cs.Laid.Src), 1500)})
				keptCase = nil
				return
			}
			if d := bindingEq(keptCase.Oc.Binding, keptRes.Binding); d != "" && keptRes.Err == nil {
				c.Violation("earlier-result-changed-by-later-call", "the binding returned by the previous call changed while this call ran: "+d,
					map[string]any{"earlier_source": core.Trunc(string(keptCase.Laid.Src), 1500), "this_source": core.Trunc(string(cs.Laid.Src), 1500)})
				keptCase = nil
				return
			}
			c.Count("earlier_results_re_examined_after_the_next_call", 1)
		}
		keptCase, keptRes = nil, ImplResult{}
		if !unspec && cs.Verdict.Kind == lang.Accept && cs.Oc != nil && res.Panic == "" && (len(res.Blocks) > 0 || res.Binding != nil) {
			keptCase, keptRes = cs, res
		}
		if g != nil && cs.Verdict.Kind == lang.Accept {
			// the generator's incremental machine and the whole-program run must agree (harness self-check)
			go1 := g.M.Finish()
			if go1.Unspecified == "" && cs.Oc.Unspecified == "" && (go1.Output != cs.Oc.Output || (go1.Err == nil) != (cs.Oc.Err == nil)) {
				if g.Shapes["inject:duplicate"]+g.Shapes["inject:undefined"] == 0 {
					c.Inconclusive(fmt.Sprintf("harness: incremental and whole-program reference runs differ (case %d): incremental out=%q err=%v unspec=%q; whole out=%q err=%v unspec=%q; source %q", i, core.Trunc(go1.Output, 200), go1.Err, go1.Unspecified, core.Trunc(cs.Oc.Output, 200), cs.Oc.Err, cs.Oc.Unspecified, cs.Laid.Src))
				}
			}
		}
		if !unspec && pf.nontriv(cs) {
			c.Nontrivial(core.Hash(cs.Laid.Src))
			if cs.Oc != nil {
				c.Count("operators_executed", int64(cs.Oc.Ops))
				c.Count("short_circuits_executed", int64(cs.Oc.ShortCircuits))
				c.Count("declarations_executed", int64(cs.Oc.Decls))
				c.Count("blocks_opened", int64(cs.Oc.BlocksOpened))
				c.Count("binds_executed", int64(cs.Oc.Binds))
				if cs.Oc.Err != nil {
					c.Count("programs_ending_in_runtime_error", 1)
					c.SetAdd("runtime_error_classes", classHead(cs.Oc.Err.Class))
				}
			}
			if cs.Verdict.Kind == lang.Reject {
				c.Count("programs_with_static_compile_error", 1)
			}
		}
		if g != nil {
			for k := range g.OpPairs {
				c.SetAdd("operator_nestings", k)
			}
		}
		if tag != "" {
			c.Count("cases_"+tag, 1)
		}
		if pf.extra != nil {
			pf.extra(c, i, cs, res, g)
		}
		if c.WantSample() && cs.Verdict.Kind == lang.Accept && cs.Oc.Ops > 2 {
			c.Sample(sampleOf(cs, res))
		}
	}
	base := int64(0)
	if pf.fixed != nil {
		base = pf.fixed(c, func(i int64, p *lang.Program, tag string) {
			if !c.Mine(i) {
				return
			}
			c.Begin(i)
			runOne(i, p, nil, tag)
		})
	}
	for k := int64(0); k < n; k++ {
		i := base + k
		if !c.Mine(i) {
			continue
		}
		c.Begin(i)
		r := c.Rand(i)
		g := lang.NewGen(r, pf.cfg(r))
		p := g.Program()
		runOne(i, p, g, "random")
	}
}

// failAfter is a writer that accepts n bytes and then fails.
type failAfter struct{ n int }

func (f failAfter) Write(p []byte) (int, error) {
	if len(p) > f.n {
		return f.n, errors.New("no space left on device")
	}
	return len(p), nil
}

func classHead(cl string) string {
	for i := 0; i < len(cl); i++ {
		if cl[i] == ':' {
			// keep operator and types, drop names
			switch cl[:i] {
			case "unresolved", "dupchild":
				return cl[:i]
			case "bind":
				rest := cl[i+1:]
				for j := 0; j < len(rest); j++ {
					if rest[j] == ':' {
						return "bind:" + rest[:j]
					}
				}
			}
			return cl
		}
	}
	return cl
}

// ---------------------------------------------------------------- C01

// exhaustive small tier: every operator x operand-kind cell over a value pool,
// through a literal, a variable and a field.
var c01Pool = []struct {
	text string
}{
	{"0"}, {"1"}, {"2"}, {"7"}, {"0x10"}, {"017"}, {"2147483648"}, {"9007199254740993"}, {"9223372036854775807"},
	{"0.0"}, {"0.5"}, {"2.5"}, {"1e3"}, {"1e300"}, {"9007199254740992.0"}, {"(0.0*(0-1))"}, {"(1e300*1e300)"}, {"(1e300*1e300-1e300*1e300)"},
	{`""`}, {`"a"`}, {`"ab"`}, {`"é"`}, {`"10"`}, {"true"}, {"false"}, {"nil"}, {"(0-1)"}, {"(0-2)"}, {"(0-9223372036854775807-1)"},
}

func c01Fixed(c *core.Ctx, run func(i int64, p *lang.Program, tag string)) int64 {
	// Operand expressions are written as token text and parsed by the reference parser itself.
	mk := func(src string) *lang.Program {
		toks, ok := lang.Lex(src)
		if !ok {
			panic("c01Fixed: cannot lex " + src)
		}
		p, v := lang.Parse(toks)
		if v.Kind != lang.Accept {
			panic("c01Fixed: not accepted: " + src)
		}
		return p
	}
	var i int64
	bin := []string{"+", "-", "*", "/", "<", "<=", ">", ">=", "==", "!=", "and", "or"}
	for _, op := range bin {
		for _, a := range c01Pool {
			for _, b := range c01Pool {
				// the same cell observed three ways: literal operands + print, variable operands + variable, field operands + field
				srcs := []string{
					fmt.Sprintf("print %s %s %s", a.text, op, b.text),
					fmt.Sprintf("var l = %s var r = %s var v = l %s r print v print l print r", a.text, b.text, op),
					fmt.Sprintf("def b { lf = %s rf = %s g = lf %s rf print g }", a.text, b.text, op),
				}
				for _, src := range srcs {
					if c.Mine(i) {
						run(i, mk(src), "operator_cell")
					}
					i++
				}
			}
		}
	}
	for _, op := range []string{"-", "+", "not"} {
		for _, a := range c01Pool {
			srcs := []string{
				fmt.Sprintf("print %s %s", op, a.text),
				fmt.Sprintf("var l = %s var v = %s l print v", a.text, op),
				fmt.Sprintf("def b { lf = %s g = %s lf print g }", a.text, op),
			}
			for _, src := range srcs {
				if c.Mine(i) {
					run(i, mk(src), "operator_cell")
				}
				i++
			}
		}
	}
	// all ordered operator triples over small operands, minimal parentheses (precedence / associativity)
	ops := []string{"+", "-", "*", "/", "<", "<=", ">", ">=", "==", "!=", "and", "or"}
	vals := []string{"7", "2", "3", "0.5", `"ab"`, "true", "nil", "0"}
	k := 0
	for _, o1 := range ops {
		for _, o2 := range ops {
			for _, o3 := range ops {
				for rep := 0; rep < 2; rep++ {
					k++
					a, b, d, e := vals[(k*7+rep)%8], vals[(k*3+1)%8], vals[(k*5+2+rep)%8], vals[(k+3)%8]
					src := fmt.Sprintf("print %s %s %s %s %s %s %s", a, o1, b, o2, d, o3, e)
					if rep == 1 {
						src = fmt.Sprintf("print not %s %s - %s %s %s %s + %s", a, o1, b, o2, d, o3, e)
					}
					if c.Mine(i) {
						run(i, mk(src), "operator_triple")
					}
					i++
				}
			}
		}
	}
	return i
}

func init() {
	core.Register(&core.Check{
		ID:    "C01",
		Level: "exploration",
		Rule: "reference-model monitor: generated programs run through bcl.Interpret and through an independent tree-walking evaluator; printed lines, " +
			"field values incl. Go dynamic type (float bit-exact), runtime-error class and line:column compared. Fixed list: every operator x operand-kind cell over a 29-value pool " +
			"(via literal, variable and field) and all ordered operator triples; then random typed expression trees (depth <= 5, hostile literal spellings, redundant parentheses, assignments in operands). " +
			"distinct = hash of source text; non-trivial = reference verdict specified (not in a DESIGN §5.3 zone) and >= 1 operator executed Every call gets a private copy of the source that is overwritten as soon as the call returns (results must not alias the caller's buffer). One call in 16 is preceded by a library call of another kind (EarlierCall). Float literals also in long plain notation (up to 70 zeros behind the dot, 40 digits before it).",
		Assumptions:   []string{"DESIGN §5.4 is the language definition; §5.3 zones give no verdict", "fmt and strconv of the Go standard library format/parse numbers as documented"},
		MinNontrivial: 1000,
		Run: func(c *core.Ctx) {
			runRefProfile(c, &refProfile{
				cfg:    func(r *rand.Rand) lang.GenCfg { return lang.CfgExpr() },
				layout: calmLayout,
				quickN: 300000, thorN: 6000000,
				nontriv: func(cs *Case) bool { return cs.Oc != nil && cs.Oc.Ops+cs.Oc.ShortCircuits >= 1 },
				fixed:   c01Fixed,
			})
		},
	})
}

// ---------------------------------------------------------------- C02

// c02Depths: the operand-stack depth right after each executed PRINT must be
// the number of variables the reference has alive at that print statement
// (the compile-time slot table and the run-time stack move in lock step).
func c02Depths(c *core.Ctx, cs *Case) {
	if cs.Oc == nil || cs.Oc.Unspecified != "" || cs.Verdict.Kind != lang.Accept || len(cs.Oc.LiveAtPrint) == 0 {
		return
	}
	var out, lg bytes.Buffer
	p, err := bcl.Parse(cs.Laid.Src, "c02", bcl.OptOutput(&out), bcl.OptLogger(&lg))
	if err != nil {
		return
	}
	var depths []int
	prev := byte(255)
	bcl.VerifSetVMHook(func(st bcl.VerifVMState) {
		if prev == 2 { // PRINT
			depths = append(depths, st.Tos)
		}
		prev = st.Op
	})
	pan, _ := protect(func() { bcl.Execute(p) })
	bcl.VerifSetVMHook(nil)
	if pan != "" {
		return
	}
	c.Eval(1)
	if fmt.Sprint(depths) != fmt.Sprint(cs.Oc.LiveAtPrint) {
		c.Violation("stack-depth-at-print", fmt.Sprintf("operand-stack depth after each executed print is %v, the reference has %v variables alive there", depths, cs.Oc.LiveAtPrint),
			map[string]any{"source": string(cs.Laid.Src), "source_q": fmt.Sprintf("%q", cs.Laid.Src)})
		return
	}
	c.Count("print_statements_with_stack_depth_checked", int64(len(depths)))
}

func c02Extra(c *core.Ctx, i int64, cs *Case, r ImplResult, g *lang.Gen) {
	c02Depths(c, cs)
	if cs.Oc == nil {
		return
	}
	// shapes targeted by the property, counted on what was executed
	var walk func(ss []*lang.Stmt, depth int, declared []map[string]bool)
	walk = func(ss []*lang.Stmt, depth int, declared []map[string]bool) {
		for _, s := range ss {
			switch s.Kind {
			case lang.SVar:
				for d := 0; d < len(declared)-1; d++ {
					if declared[d][s.Name] {
						c.Count("shadowing_declarations", 1)
						break
					}
				}
				if s.E != nil && mentions(s.E, s.Name) {
					c.Count("initializers_reading_same_name", 1)
				}
				declared[len(declared)-1][s.Name] = true
			case lang.SDef:
				walk(s.Body, depth+1, append(declared, map[string]bool{}))
				c.Max("max_block_depth", int64(depth+1))
			}
			if s.E != nil && hasEmbeddedAssign(s.E, true) {
				c.Count("assignments_embedded_in_expressions", 1)
			}
		}
	}
	walk(cs.Prog.Stmts, 0, []map[string]bool{{}})
}

func mentions(e *lang.Expr, name string) bool {
	if e == nil {
		return false
	}
	if (e.Kind == lang.EIdent || e.Kind == lang.EAssign) && e.Name == name {
		return true
	}
	return mentions(e.L, name) || mentions(e.R, name)
}

func hasEmbeddedAssign(e *lang.Expr, top bool) bool {
	if e == nil {
		return false
	}
	if e.Kind == lang.EAssign {
		if !top {
			return true
		}
		return hasEmbeddedAssign(e.R, true)
	}
	return hasEmbeddedAssign(e.L, false) || hasEmbeddedAssign(e.R, false)
}

// c02Fixed: pairs of distinct names of equal length that collide under a common
// 32-bit string hash, in every role the property gives a name: variable read and
// written next to the other variable, field next to the variable, unknown name
// at toplevel next to the variable.
func c02Fixed(c *core.Ctx, run func(i int64, p *lang.Program, tag string)) int64 {
	var i int64
	num := func(v int) *lang.Expr { return lang.Lit(lang.IntLit(v)) }
	vr := func(n string, e *lang.Expr) *lang.Stmt { return &lang.Stmt{Kind: lang.SVar, Name: n, E: e} }
	pr := func(e *lang.Expr) *lang.Stmt { return &lang.Stmt{Kind: lang.SPrint, E: e} }
	ex := func(e *lang.Expr) *lang.Stmt { return &lang.Stmt{Kind: lang.SExpr, E: e} }
	for _, hc := range lang.HashCollisions {
		for _, ab := range [][2]string{{hc.A, hc.B}, {hc.B, hc.A}} {
			a, b := ab[0], ab[1]
			progs := []*lang.Program{
				// b is a field while a is a live variable
				{Stmts: []*lang.Stmt{vr(a, num(1)),
					{Kind: lang.SDef, Name: "blk", BlockName: lang.StrLit("n"), Body: []*lang.Stmt{ex(lang.Assign(b, num(2))), ex(lang.Assign("sum", lang.Bin("+", lang.Id(a), lang.Id(b)))), pr(lang.Id(b))}},
					pr(lang.Id(a))}},
				// b is unknown at toplevel while a is a live variable
				{Stmts: []*lang.Stmt{vr(a, num(1)), pr(lang.Id(b))}},
				{Stmts: []*lang.Stmt{vr(a, num(1)), ex(lang.Assign(b, num(2))), pr(lang.Id(a))}},
				// both are variables of one scope
				{Stmts: []*lang.Stmt{vr(a, num(1)), vr(b, num(2)), ex(lang.Assign(a, num(10))), pr(lang.Id(a)), pr(lang.Id(b)),
					ex(lang.Assign(b, lang.Bin("+", lang.Id(a), num(5)))), pr(lang.Id(a)), pr(lang.Id(b))}},
				// variables of different scopes
				{Stmts: []*lang.Stmt{vr(b, num(7)),
					{Kind: lang.SDef, Name: "blk", Body: []*lang.Stmt{vr(a, num(1)), ex(lang.Assign(b, lang.Bin("+", lang.Id(b), lang.Id(a)))), ex(lang.Assign(a, num(3))), pr(lang.Id(a)), pr(lang.Id(b))}},
					pr(lang.Id(b))}},
			}
			for _, p := range progs {
				if c.Mine(i) {
					run(i, p, "hash_colliding_names")
				}
				i++
			}
		}
	}
	// chains of blocks nested 1..16 deep (the supported depth) with variables declared at every level:
	// each level reads the variables of all enclosing levels, shadows one of them, and after the inner
	// block has closed its own variables are still variables
	for depth := 1; depth <= 16; depth++ {
		for variant := 0; variant < 4; variant++ {
			if c.Mine(i) {
				var mk func(d int) *lang.Stmt
				mk = func(d int) *lang.Stmt {
					own := fmt.Sprintf("v%d", d)
					s := &lang.Stmt{Kind: lang.SDef, Name: "blk"}
					s.Body = append(s.Body, vr(own, num(d)))
					switch variant {
					case 1:
						s.Body = append(s.Body, vr("x", lang.Bin("+", lang.Id("x"), num(d)))) // shadows the x of the level above, reading it
					case 2:
						if d%2 == 0 {
							s.Body = append(s.Body, vr("x", num(100+d)))
						}
					case 3:
						s.Body = append(s.Body, vr("x", num(d)), vr("y", lang.Id("x")))
					}
					if d > 1 {
						s.Body = append(s.Body, pr(lang.Bin("+", lang.Id(own), lang.Id(fmt.Sprintf("v%d", d-1)))))
					}
					if d < depth {
						s.Body = append(s.Body, mk(d+1))
					}
					// after the inner block: this level's variables must still resolve as variables
					s.Body = append(s.Body, ex(lang.Assign(own, lang.Bin("+", lang.Id(own), num(1000)))), pr(lang.Id(own)), pr(lang.Id("x")))
					if variant == 3 {
						s.Body = append(s.Body, pr(lang.Id("y")))
					}
					return s
				}
				run(i, &lang.Program{Stmts: []*lang.Stmt{vr("x", num(0)), vr("v0", num(0)), mk(1), pr(lang.Id("x")), pr(lang.Id("v0"))}}, "nesting_chain_with_variables")
			}
			i++
		}
	}
	// programs that introduce hundreds to thousands of names nobody used before (unique per case, so the
	// number of distinct names the process has seen keeps growing) while variables declared at the start
	// stay in use: they must still be the same variables at the end
	for k := 0; k < 80; k++ {
		if c.Mine(i) {
			u := fmt.Sprintf("%d_%d", c.Seed, k)
			keep, other, loc := "keep_"+u, "other_"+u, "loc_"+u
			nf := []int{100, 700, 2500, 5000, 9000}[k%5]
			blk := &lang.Stmt{Kind: lang.SDef, Name: "blk", BlockName: lang.StrLit("n")}
			blk.Body = append(blk.Body, vr(loc, num(1)))
			for f := 0; f < nf; f++ {
				blk.Body = append(blk.Body, ex(lang.Assign(fmt.Sprintf("f%d_%s", f, u), num(f))))
				if f%997 == 5 {
					blk.Body = append(blk.Body, ex(lang.Assign(loc, lang.Bin("+", lang.Id(loc), lang.Id(keep)))), pr(lang.Id(loc)))
				}
			}
			blk.Body = append(blk.Body, ex(lang.Assign("sum", lang.Bin("+", lang.Bin("+", lang.Id(keep), lang.Id(other)), lang.Id(loc)))), pr(lang.Id("sum")))
			prog := &lang.Program{Stmts: []*lang.Stmt{vr(keep, num(7)), vr(other, num(8)), blk, pr(lang.Bin("+", lang.Id(keep), lang.Id(other))),
				{Kind: lang.SEval, E: lang.Assign(keep, num(70))}, vr("late_"+u, lang.Id(keep)), pr(lang.Id("late_" + u)), pr(lang.Id(other))}}
			run(i, prog, "thousands_of_new_names_around_live_variables")
		}
		i++
	}
	return i
}

func init() {
	core.Register(&core.Check{
		ID:    "C02",
		Level: "exploration",
		Rule: "reference-model monitor on scope-centred programs: 1-14 toplevel statements, blocks nested to 5, names drawn from a pool of 4 so that shadowing, re-declaration, " +
			"'var x = x+1', variable/field name reuse and embedded assignments are frequent; 6% of programs carry an injected static error (duplicate declaration, undefined name at toplevel). " +
			"The reference has an environment chain and no slots. Compared: compile outcome and position of the first diagnostic, output, blocks, runtime-error class and line:column. " +
			"distinct = hash of source; non-trivial = specified verdict and >= 1 declaration executed or a static error predicted Also: through the VM hook, the operand-stack depth right after every executed print must equal the number of variables the reference has alive there; identifiers of 63..256 bytes and names starting with '_'; 127..300 filler variables in front of 1 in 25 programs (more than 128 / 240 live locals); pairs of equal-length names colliding under a common 32-bit string hash (internal/lang/collide_table.go) as variable/variable, variable/field and variable/unknown name; chains of blocks nested 1..16 deep with variables declared, shadowed and re-read at every level; variables named TYPE and NAME. Also 80 programs that introduce 100..9000 names nobody used before (unique per case) around variables that stay in use.",
		Assumptions:   []string{"DESIGN §5.4 scoping rules are the language definition"},
		MinNontrivial: 1000,
		Run: func(c *core.Ctx) {
			runRefProfile(c, &refProfile{
				cfg: func(r *rand.Rand) lang.GenCfg {
					cfg := lang.CfgScope()
					if r.Intn(4) == 0 {
						cfg.MaxNest = 12
						cfg.WDef = 8
						cfg.MaxBody = 4
					}
					if r.Intn(3) == 0 {
						cfg.Names = []string{"x", "y"}
					}
					if r.Intn(6) == 0 {
						// variables spelled like the block's built-in TYPE and NAME
						cfg.Names = []string{"TYPE", "NAME", "x"}
					}
					if r.Intn(5) == 0 {
						// identifiers around the 64- and 255-byte marks
						cfg.Names = append(append([]string{}, cfg.Names[:2]...), lang.LongNames[r.Intn(len(lang.LongNames))], lang.LongNames[r.Intn(len(lang.LongNames))])
					}
					if r.Intn(25) == 0 {
						// more than 128 / 240 live variables under the scope dance
						cfg.Fillers = []int{127, 128, 129, 130, 200, 239, 240, 241, 300}[r.Intn(9)]
						cfg.MaxStmts = 10
					}
					return cfg
				},
				layout: calmLayout,
				quickN: 250000, thorN: 5000000,
				nontriv: func(cs *Case) bool {
					return cs.Verdict.Kind == lang.Reject || (cs.Oc != nil && cs.Oc.Decls >= 1)
				},
				extra: c02Extra,
				fixed: c02Fixed,
			})
		},
	})
}

// ---------------------------------------------------------------- C03

func init() {
	core.Register(&core.Check{
		ID:    "C03",
		Level: "exploration",
		Rule: "reference-model monitor on block-centred programs: toplevel and nested blocks (depth <= 4), repeated types and names, names needing escapes, fields re-assigned, " +
			"fields named like children / variables / TYPE / NAME, duplicate child keys, runtime errors after k completed blocks; deep comparison of []Block " +
			"(count, order, Type, Name, exact key set, values with Go dynamic type, children under type / type.name), of output and of the error. " +
			"distinct = hash of source; non-trivial = specified verdict and >= 1 block opened Also: a third of the programs contain bind statements (the result list must not be disturbed); chains of blocks nested 1..16 deep; block names and strings spelled like numbers, like TYPE / NAME, ending in a dot; long identifiers. Every third program is also parsed once and executed three times (each execution must give the reference's blocks, binding and error); in all reference checks the result of the previous call is compared with its reference once more after the next call has run (results belong to the caller). When the program yields a binding the harness goes on to Bind it (into a struct type derived from the bound block and into one that does not fit) and then compares the returned blocks and binding with the reference once more. Also: at each implementation limit (14..17 nested blocks, 1021..1024 variables) every kind of statement and runtime event, behind a completed toplevel block that must be returned whatever happens; named blocks among hundreds to thousands of constants; two named children 0..1200 constants apart.",
		Assumptions:   []string{"DESIGN §5.4 block rules are the language definition"},
		MinNontrivial: 1000,
		Run: func(c *core.Ctx) {
			limitCasesCheck(c, false)
			runRefProfile(c, &refProfile{
				cfg: func(r *rand.Rand) lang.GenCfg {
					cfg := lang.CfgBlocks()
					if r.Intn(3) == 0 {
						cfg.WBind = 2 // the result list must not be disturbed by bind statements
					}
					if r.Intn(6) == 0 {
						cfg.Names = append(append([]string{}, cfg.Names...), lang.LongNames[r.Intn(len(lang.LongNames))])
						cfg.WVar = 5
					}
					return cfg
				},
				layout: calmLayout,
				quickN: 250000, thorN: 5000000,
				fixed:   c03Fixed,
				nontriv: func(cs *Case) bool { return cs.Oc != nil && cs.Oc.BlocksOpened >= 1 },
				extra: func(c *core.Ctx, i int64, cs *Case, r ImplResult, g *lang.Gen) {
					if cs.Oc == nil {
						return
					}
					c.Count("toplevel_blocks_returned", int64(len(cs.Oc.Blocks)))
					if i%3 == 0 && cs.Verdict.Kind == lang.Accept && cs.Oc.Unspecified == "" && r.Panic == "" {
						// one Prog executed three times: every execution gives what the program defines
						var out, lg bytes.Buffer
						if p, perr := bcl.Parse(cs.Laid.Src, "twice", bcl.OptOutput(&out), bcl.OptLogger(&lg)); perr == nil {
							for run := 1; run <= 3; run++ {
								var bl []bcl.Block
								var bi bcl.Binding
								var xerr error
								pan, stack := protect(func() { bl, bi, xerr = bcl.Execute(p) })
								c.Eval(1)
								if pan != "" {
									c.Violation(panicSig(pan, stack), fmt.Sprintf("execution %d of one Prog panicked: %s", run, pan), detailOf(cs, r))
									return
								}
								if d := blocksEq(cs.Oc.Blocks, bl); d != "" || (xerr == nil) != (cs.Oc.Err == nil) {
									c.Violation("repeated-execution-differs", fmt.Sprintf("execution %d of one Prog: %s (error %v, expected an error: %v)", run, d, xerr, cs.Oc.Err != nil), detailOf(cs, r))
									return
								}
								if xerr == nil {
									if d := bindingEq(cs.Oc.Binding, bi); d != "" {
										c.Violation("repeated-execution-differs", fmt.Sprintf("execution %d of one Prog: %s", run, d), detailOf(cs, r))
										return
									}
								}
							}
							c.Count("programs_executed_three_times", 1)
						}
					}
					if r.Binding != nil && r.Err == nil && cs.Oc.Unspecified == "" && r.Panic == "" {
						// the caller goes on to Bind the returned binding (into a type derived from the bound block,
						// and into one that does not fit): the result list is the caller's and must not change under it
						rr := c.Rand(i ^ 0x51ed)
						var first bcl.Block
						slice := false
						switch b := r.Binding.(type) {
						case bcl.StructBinding:
							first = b.Value
						case bcl.SliceBinding:
							slice = true
							if len(b.Value) > 0 {
								first = b.Value[0]
							}
						}
						for _, mutate := range []bool{false, true} {
							t := c15TargetType(rr, first, mutate)
							var target any
							if slice {
								target = reflect.New(reflect.SliceOf(t)).Interface()
							} else {
								target = reflect.New(t).Interface()
							}
							pan, stack := protect(func() { bcl.Bind(target, r.Binding) })
							c.Eval(1)
							if pan != "" {
								c.Violation(panicSig(pan, stack), "Bind of the returned binding panicked: "+pan, detailOf(cs, r))
								return
							}
							if d := blocksEq(cs.Oc.Blocks, r.Blocks); d != "" {
								c.Violation("blocks-changed-by-bind", "after Bind of the returned binding the returned blocks are no longer what the program defined: "+d, detailOf(cs, r))
								return
							}
							if d := bindingEq(cs.Oc.Binding, r.Binding); d != "" {
								c.Violation("blocks-changed-by-bind", "after Bind the returned binding is no longer what the program selected: "+d, detailOf(cs, r))
								return
							}
						}
						c.Count("results_re_examined_after_bind", 1)
					}
					if cs.Oc.Err != nil && len(cs.Oc.Blocks) > 0 {
						c.Count("runs_returning_blocks_together_with_error", 1)
					}
					for _, b := range cs.Oc.Blocks {
						for _, v := range b.Fields {
							if _, ok := v.(*lang.RBlock); ok {
								c.Count("nested_children_compared", 1)
							}
						}
					}
				},
			})
		},
	})
}

// ---------------------------------------------------------------- C04

func c04Fixed(c *core.Ctx, run func(i int64, p *lang.Program, tag string)) int64 {
	var i int64
	sels := []string{"", "1", "first", "last", "all"}
	tgts := []string{"struct", "slice"}
	blk := func(typ, name string, k int) *lang.Stmt {
		s := &lang.Stmt{Kind: lang.SDef, Name: typ}
		if name != "" {
			s.BlockName = lang.StrLit(name)
		}
		s.Body = []*lang.Stmt{{Kind: lang.SExpr, E: lang.Assign("id", lang.Lit(lang.IntLit(k)))}}
		return s
	}
	// selector x target x number of candidates x other-type blocks x position x number of binds
	for _, sel := range sels {
		for _, tgt := range tgts {
			if sel == "all" && tgt == "struct" {
				continue // compile error, covered by C17 and by the random part
			}
			for ncand := 0; ncand <= 4; ncand++ {
				for others := 0; others < 4; others++ { // bit0: other before, bit1: other after
					for after := 0; after <= 2; after++ { // candidates defined after the bind
						for nbind := 1; nbind <= 3; nbind++ {
							if c.Mine(i) {
								p := &lang.Program{}
								k := 0
								if others&1 != 0 {
									p.Stmts = append(p.Stmts, blk("other", "", 100))
								}
								for j := 0; j < ncand; j++ {
									k++
									p.Stmts = append(p.Stmts, blk("srv", fmt.Sprintf("n%d", k), k))
									if others&2 != 0 && j == 0 {
										p.Stmts = append(p.Stmts, blk("other", "mid", 101))
									}
								}
								mkBind := func(sel, tgt string) *lang.Stmt {
									return &lang.Stmt{Kind: lang.SBind, Name: "srv", Sel: sel, Target: tgt}
								}
								for b := 0; b < nbind; b++ {
									s2, t2 := sel, tgt
									if b < nbind-1 {
										// earlier binds use another combination
										s2 = sels[(b+1)%4]
										t2 = tgts[b%2]
									}
									p.Stmts = append(p.Stmts, mkBind(s2, t2))
									if b == 0 {
										for j := 0; j < after; j++ {
											k++
											p.Stmts = append(p.Stmts, blk("srv", fmt.Sprintf("n%d", k), k))
										}
									}
								}
								run(i, p, "selector_target_product")
							}
							i++
							// the same bind statement placed inside a block body (candidates = toplevel blocks completed so far)
							if nbind == 1 && after == 0 {
								if c.Mine(i) {
									p := &lang.Program{}
									for j := 0; j < ncand; j++ {
										p.Stmts = append(p.Stmts, blk("srv", fmt.Sprintf("n%d", j+1), j+1))
									}
									if others&1 != 0 {
										p.Stmts = append(p.Stmts, blk("other", "", 100))
									}
									host := blk("srv", "host", 50)
									host.Body = append(host.Body, &lang.Stmt{Kind: lang.SBind, Name: "srv", Sel: sel, Target: tgt})
									if others&2 != 0 {
										host.Body = append(host.Body, &lang.Stmt{Kind: lang.SExpr, E: lang.Assign("late", lang.Lit(lang.IntLit(1)))})
									}
									p.Stmts = append(p.Stmts, host)
									run(i, p, "bind_inside_block")
								}
								i++
							}
						}
					}
				}
			}
		}
	}
	// selectors and targets that are not in the language: compile errors at that token
	for _, sel := range []string{"01", "001", "0x1", "0X01", "1.0", "1e0", "2", "0", "11", "\"1\"", "one", "firstx", "First", "ALL", "lasts", "true", "nil", "struct", "slice", "srv", "bind"} {
		for _, tgt := range tgts {
			if c.Mine(i) {
				p := &lang.Program{Stmts: []*lang.Stmt{blk("srv", "n1", 1), {Kind: lang.SBind, Name: "srv", Sel: sel, Target: tgt}}}
				run(i, p, "unknown_selector")
			}
			i++
		}
	}
	for _, tgt := range []string{"structs", "Struct", "SLICE", "slices", "map", "x", "first", "last", "all", "1", "srv", "nil"} {
		for _, sel := range sels {
			if c.Mine(i) {
				p := &lang.Program{Stmts: []*lang.Stmt{blk("srv", "n1", 1), {Kind: lang.SBind, Name: "srv", Sel: sel, Target: tgt}}}
				run(i, p, "unknown_target")
			}
			i++
		}
	}
	if c.Mine(i) {
		run(i, &lang.Program{Stmts: []*lang.Stmt{blk("srv", "n1", 1), {Kind: lang.SBind, Name: "srv", Sel: "all", Target: "struct"}}}, "all_to_struct")
	}
	i++
	// many bind statements in one run (every one after the first warns), at toplevel and inside blocks
	for _, nb := range []int{5, 15, 16, 17, 18, 19, 31, 32, 33, 34, 35, 64, 65, 100, 257, 300} {
		for variant := 0; variant < 3; variant++ {
			if c.Mine(i) {
				p := &lang.Program{Stmts: []*lang.Stmt{blk("srv", "n1", 1), blk("other", "o", 100), blk("srv", "n2", 2)}}
				host := blk("host", "h", 50)
				for b := 0; b < nb; b++ {
					bs := &lang.Stmt{Kind: lang.SBind, Name: "srv", Sel: []string{"first", "last", "all", "first"}[b%4], Target: []string{"struct", "slice", "slice", "slice"}[b%4]}
					switch {
					case variant == 1 && b%2 == 1:
						host.Body = append(host.Body, bs)
					case variant == 2 && b%5 == 4:
						p.Stmts = append(p.Stmts, blk("srv", fmt.Sprintf("late%d", b), 1000+b), bs)
					default:
						p.Stmts = append(p.Stmts, bs)
					}
				}
				if variant == 1 {
					p.Stmts = append(p.Stmts, host)
				}
				run(i, p, "many_binds_in_one_run")
			}
			i++
		}
	}
	// long results: hundreds of toplevel blocks, binds in between and after
	for _, n := range []int{200, 255, 256, 257, 300, 1000} {
		for _, sel := range []string{"last", "all", "first"} {
			if c.Mine(i) {
				p := &lang.Program{}
				for k := 0; k < n; k++ {
					p.Stmts = append(p.Stmts, blk([]string{"srv", "other"}[k%2], fmt.Sprintf("n%d", k), k))
				}
				tgt := "slice"
				p.Stmts = append(p.Stmts, &lang.Stmt{Kind: lang.SBind, Name: "srv", Sel: sel, Target: tgt})
				p.Stmts = append(p.Stmts, blk("srv", "late1", 5001), blk("late", "x", 5002), blk("srv", "late2", 5003))
				p.Stmts = append(p.Stmts, &lang.Stmt{Kind: lang.SBind, Name: "srv", Sel: sel, Target: tgt})
				p.Stmts = append(p.Stmts, &lang.Stmt{Kind: lang.SBind, Name: "late", Sel: "", Target: "struct"})
				run(i, p, "long_result_with_binds")
			}
			i++
		}
	}
	// block counts around 2^16 (and 2^8 above): every selector still sees all of them
	for _, n := range []int{65535, 65536, 65537, 65793} {
		for _, st := range [][2]string{{"", "struct"}, {"1", "slice"}, {"first", "struct"}, {"last", "struct"}, {"all", "slice"}, {"last", "slice"}} {
			if c.Mine(i) {
				p := &lang.Program{}
				for k := 0; k < n; k++ {
					p.Stmts = append(p.Stmts, blk("srv", "", k))
				}
				p.Stmts = append(p.Stmts, &lang.Stmt{Kind: lang.SBind, Name: "srv", Sel: st[0], Target: st[1]})
				run(i, p, "block_count_around_65536")
			}
			i++
		}
	}
	return i
}

// c03Fixed: chains of blocks nested 1..16 deep (the supported depth), named and unnamed
func c03Fixed(c *core.Ctx, run func(i int64, p *lang.Program, tag string)) int64 {
	var i int64
	for depth := 1; depth <= 16; depth++ {
		for variant := 0; variant < 3; variant++ {
			if c.Mine(i) {
				var mk func(d int) *lang.Stmt
				mk = func(d int) *lang.Stmt {
					s := &lang.Stmt{Kind: lang.SDef, Name: []string{"blk", "sub", "srv"}[d%3]}
					if variant > 0 {
						s.BlockName = lang.StrLit(fmt.Sprintf("n%d", d))
					}
					s.Body = append(s.Body, &lang.Stmt{Kind: lang.SExpr, E: lang.Assign("level", lang.Lit(lang.IntLit(d)))})
					if d < depth {
						s.Body = append(s.Body, mk(d+1))
					}
					if variant == 2 {
						s.Body = append(s.Body, &lang.Stmt{Kind: lang.SExpr, E: lang.Assign("after", lang.Id("level"))})
					}
					return s
				}
				run(i, &lang.Program{Stmts: []*lang.Stmt{mk(1), {Kind: lang.SPrint, E: lang.Lit(lang.IntLit(depth))}}}, "nesting_chain")
			}
			i++
		}
	}
	// named and unnamed blocks of a few types spread over a program with hundreds to thousands of constants
	// (constant numbers beyond one byte, beyond 240, beyond 2287), at toplevel and as children of one parent
	for k := 0; k < 40; k++ {
		if c.Mine(i) {
			gap := []int{30, 120, 250, 260, 511, 513, 1100, 2300}[k%8] // new constants between two named blocks
			nblk := 3 + k%4
			asChildren := k%2 == 1
			var stmts []*lang.Stmt
			cn := 0
			for b := 0; b < nblk; b++ {
				filler := &lang.Stmt{Kind: lang.SDef, Name: "filler", BlockName: lang.StrLit(fmt.Sprintf("f%d", b))}
				for f := 0; f < gap/2; f++ {
					cn++
					filler.Body = append(filler.Body, &lang.Stmt{Kind: lang.SExpr, E: lang.Assign(fmt.Sprintf("k%d", cn), lang.Lit(lang.IntLit(100000+cn)))})
				}
				named := &lang.Stmt{Kind: lang.SDef, Name: []string{"t", "u"}[b%2], BlockName: lang.StrLit(fmt.Sprintf("name%d", b))}
				named.Body = append(named.Body, &lang.Stmt{Kind: lang.SExpr, E: lang.Assign("id", lang.Lit(lang.IntLit(b)))},
					&lang.Stmt{Kind: lang.SDef, Name: "t", BlockName: lang.StrLit(fmt.Sprintf("inner%d", b)), Body: []*lang.Stmt{{Kind: lang.SExpr, E: lang.Assign("in", lang.Lit(lang.IntLit(b)))}}},
					&lang.Stmt{Kind: lang.SDef, Name: "t", Body: []*lang.Stmt{{Kind: lang.SExpr, E: lang.Assign("anon", lang.Lit(lang.IntLit(b)))}}})
				stmts = append(stmts, filler, named)
			}
			prog := &lang.Program{Stmts: stmts}
			if asChildren {
				prog = &lang.Program{Stmts: []*lang.Stmt{{Kind: lang.SDef, Name: "parent", BlockName: lang.StrLit("p"), Body: stmts}}}
			}
			run(i, prog, "named_blocks_among_many_constants")
		}
		i++
	}
	// two named children of one type (and a third of another type with the first one's name) with 0..1200 new
	// constants between them: every distance, so every pair of constant numbers up to the two-byte operand class
	for n := 0; n <= 1200; n++ {
		if c.Mine(i) {
			asg := func(k string, v int) *lang.Stmt {
				return &lang.Stmt{Kind: lang.SExpr, E: lang.Assign(k, lang.Lit(lang.IntLit(v)))}
			}
			top := &lang.Stmt{Kind: lang.SDef, Name: "top"}
			top.Body = append(top.Body, &lang.Stmt{Kind: lang.SDef, Name: "t", BlockName: lang.StrLit("first"), Body: []*lang.Stmt{asg("a", 1)}})
			for f := 0; f < n; f++ {
				top.Body = append(top.Body, asg("z", 100000+f))
			}
			top.Body = append(top.Body, &lang.Stmt{Kind: lang.SDef, Name: "t", BlockName: lang.StrLit("second"), Body: []*lang.Stmt{asg("b", 2)}},
				&lang.Stmt{Kind: lang.SDef, Name: "u", BlockName: lang.StrLit("first"), Body: []*lang.Stmt{asg("c", 3)}},
				&lang.Stmt{Kind: lang.SDef, Name: "t", Body: []*lang.Stmt{asg("d", 4)}})
			run(i, &lang.Program{Stmts: []*lang.Stmt{top}}, "two_named_children_n_constants_apart")
		}
		i++
	}
	return i
}

func init() {
	core.Register(&core.Check{
		ID:    "C04",
		Level: "exploration",
		Rule: "reference-model monitor: fixed product selector {none,1,first,last,all} x target {struct,slice} x 0-4 candidate blocks x other-type blocks before/between x 0-2 candidates defined after the first bind x 1-3 bind statements " +
			"(all cases), then random block programs with bind statements anywhere (also inside blocks). Compared: Binding kind, blocks and order; warnings (count, line:column) on the log writer; runtime-error class and position. " +
			"distinct = hash of source; non-trivial = specified verdict and >= 1 bind executed Also: binds inside block bodies; unknown selectors (01 001 0x1 1.0 2 \"1\" one First ...) and unknown targets as compile errors at that token; block types spelled like selector / target words or differing only in case; results with 200..1000 toplevel blocks and binds in between; 65535..65793 blocks of the bound type under every selector; selectors spelled like targets and targets spelled like selectors; a failing log writer must not make a repeated bind fail. Also: 5..300 bind statements in one run (toplevel and inside blocks, warnings counted); every form of bind executed at 14..17 nested blocks and next to 1021..1024 live variables.",
		Assumptions:   []string{"DESIGN §5.4 bind rules are the language definition"},
		MinNontrivial: 1000,
		Run: func(c *core.Ctx) {
			limitCasesCheck(c, true)
			runRefProfile(c, &refProfile{
				cfg: func(r *rand.Rand) lang.GenCfg {
					cfg := lang.CfgBind()
					switch r.Intn(6) {
					case 0:
						// block types spelled like selector and target words
						cfg.Types = []string{"first", "last", "all", "struct", "slice"}
					case 1:
						// block types differing only in letter case
						cfg.Types = []string{"srv", "Srv", "SRV", "blk"}
					}
					return cfg
				},
				layout: calmLayout,
				quickN: 150000, thorN: 12000000,
				nontriv: func(cs *Case) bool { return cs.Oc != nil && cs.Oc.Binds >= 1 },
				fixed:   c04Fixed,
				extra: func(c *core.Ctx, i int64, cs *Case, r ImplResult, g *lang.Gen) {
					if cs.Oc == nil {
						return
					}
					c.Count("warnings_compared", int64(len(cs.Oc.Warnings)))
					if len(cs.Oc.Warnings) > 0 && cs.Oc.Unspecified == "" {
						// the log writer fails: the warning is lost, the run and its binding are not
						var out bytes.Buffer
						bl, bi, err := bcl.Interpret(cs.Laid.Src, bcl.OptOutput(&out), bcl.OptLogger(failAfter{0}))
						c.Eval(1)
						if (err == nil) != (cs.Oc.Err == nil) || blocksEq(cs.Oc.Blocks, bl) != "" || bindingEq(cs.Oc.Binding, bi) != "" {
							c.Violation("failing-log-writer-changes-outcome", fmt.Sprintf("with a log writer that fails, a program with repeated binds gives err=%v (expected error: %v) or other blocks/binding", err, cs.Oc.Err != nil), detailOf(cs, r))
							return
						}
						c.Count("runs_with_failing_log_writer", 1)
					}
					if cs.Oc.Binding != nil {
						if cs.Oc.Binding.Slice {
							c.Count("slice_bindings_compared", 1)
						} else {
							c.Count("struct_bindings_compared", 1)
						}
					}
				},
			})
		},
	})
}
