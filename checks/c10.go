package checks

import (
	"bytes"
	"errors"
	"fmt"
	"io"
	"math/rand"
	"strconv"
	"strings"

	"github.com/wkhere/bcl"

	"verif/internal/bc"
	"verif/internal/core"
	"verif/internal/lang"
)

// partsFile views the in-memory parts of a Prog as a bc.File.
func partsFile(p *bcl.Prog) *bc.File {
	vp := bcl.VerifProgParts(p)
	return &bc.File{Major: 1, Minor: 1, Name: vp.Name, Code: vp.Code, Constants: vp.Constants, Positions: vp.Positions, LineFeeds: vp.LineFeeds}
}

// randProfile picks one of the generator profiles.
func randProfile(r *rand.Rand) lang.GenCfg {
	switch r.Intn(5) {
	case 0:
		return lang.CfgExpr()
	case 1:
		return lang.CfgScope()
	case 2:
		return lang.CfgBlocks()
	case 3:
		return lang.CfgBind()
	}
	// short-circuit heavy profile
	c := lang.CfgExpr()
	c.ExprDepth = 6
	c.ErrPct = 5
	c.MaxStmts = 8
	return c
}

// dynMonitor checks an execution against the static facts of the verifier.
type dynMonitor struct {
	st       *bc.Static
	bad      string
	steps    int
	taken    map[int]bool // JFALSE offset -> jumped
	notTaken map[int]bool
	prevJF   int
	prevTgt  int
}

func (d *dynMonitor) hook(s bcl.VerifVMState) {
	d.steps++
	if d.prevJF >= 0 {
		if s.PC == d.prevTgt {
			d.taken[d.prevJF] = true
		} else {
			d.notTaken[d.prevJF] = true
		}
		d.prevJF = -1
	}
	if d.bad != "" {
		return
	}
	idx, ok := d.st.Index[s.PC]
	if !ok {
		d.bad = fmt.Sprintf("executed pc %d is not an instruction boundary", s.PC)
		return
	}
	if want := d.st.Depth[s.PC]; want != s.Tos {
		d.bad = fmt.Sprintf("at pc %d (%s) the operand stack holds %d values, the static depth is %d", s.PC, bc.OpNames[d.st.Instrs[idx].Op], s.Tos, want)
		return
	}
	if want := d.st.BDepth[s.PC]; want != s.BlockTos {
		d.bad = fmt.Sprintf("at pc %d the block stack holds %d blocks, the static depth is %d", s.PC, s.BlockTos, want)
		return
	}
	in := d.st.Instrs[idx]
	if in.Op == bc.JFALSE {
		d.prevJF = in.Off
		d.prevTgt = in.Target
	}
}

// c10Program verifies one compiled program statically and dynamically.
// Returns the number of jumps and how many were seen in both directions.
// flakyWriter fails the writes whose (0-based) index has its bit set in mask; later ones succeed.
type flakyWriter struct {
	mask  uint64
	n     int
	fails int
}

func (w *flakyWriter) Write(p []byte) (int, error) {
	k := w.n
	w.n++
	if k < 64 && w.mask>>uint(k)&1 == 1 {
		w.fails++
		return 0, errors.New("injected log write error")
	}
	return len(p), nil
}

// the program compiled last by this worker, and the hash of its code at that time
var (
	c10Prev     *bcl.Prog
	c10PrevHash uint64
)

func c10Program(c *core.Ctx, src []byte, variant []byte) { c10ProgramLog(c, src, variant, nil) }

// c10ProgramLog: logw, when given, takes the diagnostics (a writer that fails now and then).
func c10ProgramLog(c *core.Ctx, src []byte, variant []byte, logw *flakyWriter) {
	if !vetMemory(src) || (variant != nil && !vetMemory(variant)) {
		c.Count("skipped_excluded_huge_result", 1)
		return
	}
	var out, lg bytes.Buffer
	var lw io.Writer = &lg
	if logw != nil {
		lw = logw
	}
	prog, err := bcl.Parse(src, "c10", bcl.OptOutput(&out), bcl.OptLogger(lw))
	c.Eval(1)
	if logw != nil && logw.fails > 0 {
		c.Count("compilations_with_a_failing_log_write", 1)
	}
	if err != nil {
		c.Count("programs_rejected_by_parse", 1)
		return
	}
	// the program compiled before this one is still the caller's: its code must be what it was
	if c10Prev != nil {
		if now := bcl.VerifProgParts(c10Prev).Code; core.Hash(now) != c10PrevHash {
			c.Violation("earlier-program-changed-by-later-compilation", fmt.Sprintf("the code of the previously compiled program (%d bytes) changed while this one was compiled", len(now)), map[string]any{"this_source": core.Trunc(string(src), 1500)})
			c10Prev = nil
			return
		}
		c.Count("earlier_programs_re_examined_after_the_next_compilation", 1)
	}
	c10Prev, c10PrevHash = prog, core.Hash(bcl.VerifProgParts(prog).Code)
	f := partsFile(prog)
	st, verr := bc.Verify(f)
	det := func() map[string]any {
		return map[string]any{"source": core.Trunc(string(src), 3000), "source_q": core.Trunc(fmt.Sprintf("%q", src), 6000), "code_hex": core.Trunc(fmt.Sprintf("% x", f.Code), 3000)}
	}
	if verr != nil {
		c.Violation("static:"+strings.SplitN(stripDigits(verr.Error()), ":", 2)[0], "compiled bytecode is not well-formed: "+verr.Error(), det())
		return
	}
	c.Count("instructions_verified", int64(len(st.Instrs)))
	c.Count("jumps_verified", int64(st.Jumps))
	c.Max("max_static_operand_depth", int64(st.MaxDepth))
	dm := &dynMonitor{st: st, taken: map[int]bool{}, notTaken: map[int]bool{}, prevJF: -1}
	run := func(p *bcl.Prog, m *dynMonitor) {
		bcl.VerifSetVMHook(m.hook)
		var xerr error
		pan, stack := protect(func() { _, _, xerr = bcl.Execute(p) })
		bcl.VerifSetVMHook(nil)
		c.Eval(1)
		if pan != "" {
			c.Violation(panicSig(pan, stack), "Execute panicked: "+pan, det())
			return
		}
		if xerr != nil && strings.Contains(xerr.Error(), "internal error") {
			c.Violation("internal-error", "execution ended in an internal error: "+xerr.Error(), det())
		}
	}
	run(prog, dm)
	if variant != nil {
		// same program with the truthiness of the switch variables flipped:
		// the same instructions up to constant indices
		vp, perr := bcl.Parse(variant, "c10", bcl.OptOutput(&out), bcl.OptLogger(&lg))
		if perr == nil {
			vf := partsFile(vp)
			vst, e2 := bc.Verify(vf)
			if e2 != nil {
				c.Violation("static:"+strings.SplitN(stripDigits(e2.Error()), ":", 2)[0], "compiled bytecode (variant) is not well-formed: "+e2.Error(), map[string]any{"source": core.Trunc(string(variant), 3000)})
				return
			}
			dm2 := &dynMonitor{st: vst, taken: map[int]bool{}, notTaken: map[int]bool{}, prevJF: -1}
			run(vp, dm2)
			if dm2.bad != "" && dm.bad == "" {
				dm.bad = dm2.bad + " (variant)"
			}
			same := len(vst.Instrs) == len(st.Instrs)
			for k := 0; same && k < len(st.Instrs); k++ {
				same = st.Instrs[k].Off == vst.Instrs[k].Off && st.Instrs[k].Op == vst.Instrs[k].Op
			}
			if same {
				for o := range dm2.taken {
					dm.taken[o] = true
				}
				for o := range dm2.notTaken {
					dm.notTaken[o] = true
				}
				dm.steps += dm2.steps
			} else {
				c.Count("variants_with_different_instruction_layout", 1)
			}
		}
	}
	if dm.bad != "" {
		c.Violation("dynamic:"+stripDigits(dm.bad)[:min(40, len(stripDigits(dm.bad)))], "execution disagrees with the verified structure: "+dm.bad, det())
		return
	}
	c.Count("vm_steps_cross_checked", int64(dm.steps))
	both, one := 0, 0
	for _, in := range st.Instrs {
		if in.Op == bc.JFALSE {
			t, n := dm.taken[in.Off], dm.notTaken[in.Off]
			if t && n {
				both++
			} else if t || n {
				one++
			}
		}
	}
	c.Count("conditional_jumps_seen_taken_and_not_taken", int64(both))
	c.Count("conditional_jumps_seen_in_one_direction", int64(one))
	if st.Jumps > 0 {
		c.Nontrivial(core.Hash(f.Code, fmt.Sprint(f.Constants)))
		if c.WantSample() && len(src) < 300 {
			c.Sample(map[string]any{"source": string(src), "instructions": len(st.Instrs), "jumps": st.Jumps, "both_directions": both})
		}
	}
}

func stripDigits(s string) string {
	var b strings.Builder
	for _, r := range s {
		if r < '0' || r > '9' {
			b.WriteRune(r)
		}
	}
	return b.String()
}

// c10Switched generates a short-circuit heavy program whose and/or left
// operands are mostly four switch variables, and its flipped variant.
func c10Switched(r *rand.Rand) (src, variant []byte) {
	cfg := randProfile(r)
	cfg.PreDecl = false
	cfg.BadLitPct = 1 // int literals without a value: whatever is accepted must be well-formed
	cfg.Names = append([]string{"p", "q", "s", "e"}, cfg.Names...)
	g := lang.NewGen(r, cfg)
	pre := []*lang.Stmt{
		{Kind: lang.SVar, Name: "p", E: lang.Lit(fl("1.5"))},
		{Kind: lang.SVar, Name: "q", E: lang.Lit(fl("0.0"))},
		{Kind: lang.SVar, Name: "s", E: lang.Lit(lang.StrLit("x"))},
		{Kind: lang.SVar, Name: "e", E: lang.Lit(lang.StrLit(""))},
	}
	for _, s := range pre {
		g.M.Exec(s)
	}
	body := g.Program()
	// extra statements: chains with switch variables on the left
	sw := []string{"p", "q", "s", "e"}
	for k, n := 0, 1+r.Intn(4); k < n; k++ {
		e := g.Expr(2, lang.KAny)
		for j, m := 0, 1+r.Intn(4); j < m; j++ {
			l := lang.Id(sw[r.Intn(4)])
			if r.Intn(2) == 0 {
				e = lang.And(l, e)
			} else {
				e = lang.Or(l, e)
			}
			if r.Intn(3) == 0 {
				e = lang.Un("not", e)
			}
		}
		body.Stmts = append(body.Stmts, &lang.Stmt{Kind: lang.SPrint, E: e})
	}
	mk := func(flip bool) []byte {
		p := &lang.Program{}
		vals := []*lang.Literal{fl("1.5"), fl("0.0"), lang.StrLit("x"), lang.StrLit("")}
		if flip {
			// keep the instruction layout: swap within the same kind (floats and strings are all CONST operands)
			vals = []*lang.Literal{fl("0.0"), fl("1.5"), lang.StrLit(""), lang.StrLit("x")}
		}
		for i, n := range sw {
			p.Stmts = append(p.Stmts, &lang.Stmt{Kind: lang.SVar, Name: n, E: lang.Lit(vals[i])})
		}
		p.Stmts = append(p.Stmts, body.Stmts...)
		return lang.Layout(lang.Flatten(p), lang.LayoutOpts{StmtNewlines: true}, nil).Src
	}
	return mk(false), mk(true)
}

func fl(text string) *lang.Literal {
	v, _ := strconv.ParseFloat(text, 64)
	return &lang.Literal{Kind: lang.LFloat, Text: text, Val: v}
}

func c10Fixed() []string {
	var l []string
	// code sizes sweeping across the 4096-byte mark (each is re-verified after the next compilation, see c10ProgramLog)
	for n := 1750; n <= 2100; n += 7 {
		l = append(l, "eval 1"+strings.Repeat("+1", n)+"\nprint 2 and 3 or 4\n")
	}
	// int literals without a value, wherever an operand may stand (rejected today; if ever accepted, the code must be sound)
	for _, lit := range []string{"9223372036854775808", "0x8000000000000000", "0xffffffffffffffffff", "0X10000000000000000", "18446744073709551616", "01777777777777777777777", "08", "0x", "1e999", "0x1p-2"} {
		l = append(l, "print "+lit+"\n", "var a = "+lit+"\nprint a\n", "def b { x = 1 or "+lit+"; y = 0 and "+lit+" }\n", "print -"+lit+" + 1\n", "def b { f = "+lit+" }\nbind b -> struct\n")
	}
	// > 240 locals: slots crossing the 1-byte varint range, used in short-circuits
	var b strings.Builder
	for k := 0; k < 300; k++ {
		fmt.Fprintf(&b, "var v%d = %d\n", k, k%5)
	}
	b.WriteString("print v0 and v299 or v250 and not v241\neval v299 = v240 or v1\nprint v299\n")
	b.WriteString("def blk { var w = v270 and v2; f = w or v245; def in { var z = f and w; g = z } }\n")
	l = append(l, b.String())
	// scopes ending with n live variables (the count popped at scope exit across every operand class, up to the full 1024)
	for _, n := range []int{1, 2, 3, 239, 240, 241, 242, 255, 256, 257, 1000, 1022, 1023, 1024, 1025} {
		b.Reset()
		b.WriteString("def first { done = 1 }\ndef b { f = 1\n")
		for k := 0; k < n; k++ {
			fmt.Fprintf(&b, "var w%d\n", k)
		}
		b.WriteString("}\nprint 5\n")
		l = append(l, b.String())
		if n <= 1000 {
			// the same inside an outer scope that has variables of its own
			l = append(l, "var t = 1\ndef o { var p = 2\n"+b.String()[len("def first { done = 1 }\n"):len(b.String())-len("print 5\n")]+"g = p + t }\n")
		}
	}
	// one to three bind statements whose block type is constant number n (every operand class), behind and ahead of the block
	for _, n := range []int{0, 1, 100, 238, 239, 240, 241, 242, 300, 2285, 2286, 2287, 2288, 2300} {
		b.Reset()
		for k := 0; k < n; k++ {
			fmt.Fprintf(&b, "print %d.5\n", k)
		}
		pre := b.String()
		l = append(l,
			pre+"def srv_late \"n\" { x = 1 }\nbind srv_late -> struct\nbind srv_late:first -> slice\nbind srv_late:all -> slice\nprint 1 and 2\n",
			pre+"bind ahead -> struct\nbind ahead -> struct\ndef ahead { y = 2 }\ndef other { ahead = 3 }\nbind ahead:last -> slice\n",
			pre+"def a1 { x = 1 }\nbind a1 -> struct\ndef b1 { bind a1:all -> slice\n y = 0 or 1 }\nbind b1 -> struct\n",
			pre+"def only { x = 1 }\nbind only -> struct\n",
			pre+"bind ahead -> struct\nbind ahead:all -> slice\n",
			pre+"bind ahead -> struct\nbind ahead -> slice\nprint 77.25\nprint 78\ndef ahead { y = 2 }\n",
			pre+"bind ahead -> struct\nbind other -> struct\nbind ahead:last -> slice\nprint 79\n")
	}
	// > 240 constants: constant indices crossing the varint range inside skipped operands
	b.Reset()
	for k := 0; k < 300; k++ {
		fmt.Fprintf(&b, "print %d and %d.5 or \"s%d\"\n", k+2, k, k)
	}
	b.WriteString("def blk { ")
	for k := 0; k < 300; k++ {
		fmt.Fprintf(&b, "f%d = %d or f%d\n", k, k%3, (k+299)%300)
	}
	b.WriteString("}\n")
	l = append(l, b.String())
	// long skipped operands (2-byte jump distances)
	for _, n := range []int{100, 200, 300, 1000, 20000} {
		l = append(l, "print 0 and (1"+strings.Repeat("+1", n)+") or 2\nprint 1 and (1"+strings.Repeat("+1", n)+") or 2\nprint 1 or (1"+strings.Repeat("*1", n)+")\n")
	}
	// skipped operands sized around the 16-bit jump limit: accepted ones must be well-formed, longer ones rejected
	for d := 65530; d <= 65540; d += 1 {
		bytesWanted := d - 1
		neg := ""
		if bytesWanted%2 == 0 {
			neg = "-"
			bytesWanted--
		}
		operand := neg + "1" + strings.Repeat("+1", (bytesWanted+1)/2-1)
		l = append(l, "print 0 and ("+operand+")\nprint 1 or ("+operand+")\n")
	}
	l = append(l, "def b { f = 0 and (1"+strings.Repeat("+1", 40000)+") }\n")
	// 'and' followed by 'or' with a right operand sized around the jump limit
	for d := 65524; d <= 65538; d++ {
		bytesWanted := d
		neg := ""
		if bytesWanted%2 == 0 {
			neg = "-"
			bytesWanted--
		}
		operand := neg + "1" + strings.Repeat("+1", (bytesWanted+1)/2-1)
		l = append(l, "var a = 0\nprint a and "+operand+" or 7\nvar b = 1\nprint b and "+operand+" or 7\n")
	}
	// long chains at one level: 2..40 operands of and / or / mixed, truthy and falsey
	for n := 2; n <= 40; n++ {
		for _, op := range []string{"and", "or"} {
			var b1, b2 strings.Builder
			b1.WriteString("var t = 1 var f = 0\nprint t")
			b2.WriteString("print f")
			for k := 1; k < n; k++ {
				b1.WriteString(" " + op + " t")
				b2.WriteString(" " + op + " f")
			}
			l = append(l, b1.String()+"\n"+b2.String()+"\ndef b { x = t "+strings.Repeat(op+" f ", n)+"}\n")
		}
	}
	// or-chains whose middle operand is sized around the jump limit
	for d := 65524; d <= 65532; d++ {
		bytesWanted := d
		neg := ""
		if bytesWanted%2 == 0 {
			neg = "-"
			bytesWanted--
		}
		operand := neg + "1" + strings.Repeat("+1", (bytesWanted+1)/2-1)
		l = append(l, "var z = 0\nprint z or 1 or "+operand+" or 0\nprint z or z or "+operand+" or 5 or z\n")
	}
	// constant indices across the 2-byte / 3-byte varint border (2287 / 2288)
	{
		var b strings.Builder
		for k := 0; k < 2600; k++ {
			fmt.Fprintf(&b, "print %d.5 and \"s%d\"\n", k, k)
		}
		l = append(l, b.String())
	}
	// constant pools around 2^16: the names of a block created and used again right there
	for _, n := range []int{65530, 65533, 65534, 65535, 65536, 65537, 65540} {
		var b strings.Builder
		for k := 0; k < n; k++ {
			fmt.Fprintf(&b, "eval %d.5\n", k)
		}
		b.WriteString("def blk_late \"late\" { f_late = 1 or 2; g_late = f_late and f_late }\ndef blk_late { g_late = 0 or 1 }\nbind blk_late:all -> slice\n")
		l = append(l, b.String())
	}
	// nested chains
	l = append(l, "var a = 1 var b = 0\nprint a and b and a or b or a and (b or a) and not (a and b)\nprint (a = b) or (b = a) and a\ndef x { f = a and (g = b) or (h = a and not b) }\n")
	return l
}

func init() {
	core.Register(&core.Check{
		ID:    "C10",
		Level: "exploration",
		Rule: "structural-invariant monitor over the artefact of every compilation, at the quiescent point 'Parse returned': an independent decoder + CFG dataflow checker (instructions tile the code, RET last and only there, operand kinds, jump targets on boundaries, equal operand/block depth on all in-edges, slots live, depth 0 at RET) over the program's in-memory parts; " +
			"cross-checked dynamically through the VM hook (every executed pc is a boundary, tos/blockTos equal the static values), each program also executed with flipped switch variables so that short-circuit jumps are seen taken and not taken. " +
			"distinct = hash of code+constants; non-trivial = the program contains >= 1 jump Fixed boundary programs: > 240 locals and constants, 2600 constants (operand 2287/2288), skipped operands of 65524..65540 code bytes for and / or / and-then-or / or-chains, chains of 2..40 and/or operands. 1% of int literals are spelled without a value (2^63, 2^64, hex and octal overflow, 08, 0x); a quarter of the programs get one token damaged and their diagnostics go to a log writer that fails on some writes and recovers: whatever Parse accepts is verified. Code sizes sweeping across 4096 bytes; constant pools of 65530..65540 entries with identifiers created right there; each compiled program's code is hashed and compared again after the next compilation. Boundary programs also: scopes ending with 1..1025 live variables (alone and inside an outer scope); one to three binds whose block type is constant number 0..2300, behind and ahead of the block.",
		Assumptions:   []string{"the opcode table of internal/bc (operand shapes, stack effects) is the documented instruction set; it is validated against the real VM by the dynamic cross-check"},
		MinNontrivial: 500,
		Run: func(c *core.Ctx) {
			var i int64
			for _, src := range c10Fixed() {
				if c.Mine(i) {
					c.Begin(i)
					c10Program(c, []byte(src), nil)
					c.Count("fixed_boundary_programs", 1)
				}
				i++
			}
			n := int64(c.Pick(120000, 3000000))
			for k := int64(0); k < n; k++ {
				if c.Mine(i) {
					c.Idle()
					r := c.Rand(i)
					src, variant := c10Switched(r)
					c.Begin(i)
					done := false
					if k%4 == 3 {
						// one token damaged, diagnostics to a log writer that fails on some writes and recovers:
						// whatever Parse accepts must still be well-formed
						if toks, ok := lang.Lex(string(src)); ok && len(toks) > 1 {
							pos := r.Intn(len(toks))
							switch r.Intn(3) {
							case 0:
								toks = append(append([]lang.Tok{}, toks[:pos]...), toks[pos+1:]...)
							case 1:
								toks = append(append(append([]lang.Tok{}, toks[:pos]...), c17Vocab[r.Intn(len(c17Vocab))]), toks[pos:]...)
							default:
								toks = append([]lang.Tok{}, toks...)
								toks[pos] = c17Vocab[r.Intn(len(c17Vocab))]
							}
							dsrc := lang.Layout(toks, lang.LayoutOpts{StmtNewlines: true}, nil).Src
							mask := []uint64{1, 3, 5, 0x55555555, 0x7fffffff, 2, r.Uint64()}[r.Intn(7)]
							c10ProgramLog(c, dsrc, nil, &flakyWriter{mask: mask})
							done = true
						}
					}
					if !done {
						c10Program(c, src, variant)
					}
				}
				i++
			}
		},
	})
}
