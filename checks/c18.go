package checks

import (
	"bytes"
	"context"
	"fmt"
	"math/rand"
	"os"
	"os/exec"
	"path/filepath"
	"strings"
	"syscall"
	"time"

	"github.com/wkhere/bcl"

	"verif/internal/core"
	"verif/internal/lang"
)

var cliBin = core.Root + "/.work/bin/bcl"

type procResult struct {
	stdout, stderr string
	exit           int
	timedOut       bool
}

func runCLI(dir string, stdinPath string, args ...string) procResult {
	ctx, cancel := context.WithTimeout(context.Background(), 60*time.Second)
	defer cancel()
	cmd := exec.CommandContext(ctx, cliBin, args...)
	cmd.Dir = dir
	var so, se bytes.Buffer
	cmd.Stdout, cmd.Stderr = &so, &se
	if stdinPath == "" {
		stdinPath = "/dev/null"
	}
	f, err := os.Open(stdinPath)
	if err == nil {
		cmd.Stdin = f
		defer f.Close()
	}
	err = cmd.Run()
	r := procResult{stdout: so.String(), stderr: se.String()}
	if ctx.Err() != nil {
		r.timedOut = true
		return r
	}
	if ee, ok := err.(*exec.ExitError); ok {
		r.exit = ee.ExitCode()
	} else if err != nil {
		r.exit = -1
		r.stderr += err.Error()
	}
	return r
}

// runCLIPiped feeds standard input through a pipe in two pieces with a pause in between.
func runCLIPiped(dir string, data []byte, cut int, args ...string) procResult {
	ctx, cancel := context.WithTimeout(context.Background(), 60*time.Second)
	defer cancel()
	cmd := exec.CommandContext(ctx, cliBin, args...)
	cmd.Dir = dir
	var so, se bytes.Buffer
	cmd.Stdout, cmd.Stderr = &so, &se
	w, err := cmd.StdinPipe()
	if err != nil {
		return procResult{exit: -1, stderr: err.Error()}
	}
	if err := cmd.Start(); err != nil {
		return procResult{exit: -1, stderr: err.Error()}
	}
	w.Write(data[:cut])
	time.Sleep(150 * time.Millisecond)
	w.Write(data[cut:])
	w.Close()
	err = cmd.Wait()
	r := procResult{stdout: so.String(), stderr: se.String()}
	if ctx.Err() != nil {
		r.timedOut = true
		return r
	}
	if ee, ok := err.(*exec.ExitError); ok {
		r.exit = ee.ExitCode()
	} else if err != nil {
		r.exit = -1
	}
	return r
}

type namedFile struct {
	*os.File
	name string
}

func (n namedFile) Name() string { return n.name }

type cliFlags struct{ d, t, r, s bool }

// libExpect computes what the library prints for the file and options, the
// way the documented tool uses it: ParseFile(disasm, stats) then Execute(trace, stats).
func libExpect(path, name string, fl cliFlags) (stdout, stderr string, exit int) {
	f, err := os.Open(path)
	if err != nil {
		return "", err.Error() + "\n", 1
	}
	var out, lg bytes.Buffer
	prog, err := bcl.ParseFile(namedFile{f, name}, bcl.OptOutput(&out), bcl.OptLogger(&lg), bcl.OptDisasm(fl.d), bcl.OptStats(fl.s))
	if err != nil {
		return out.String(), lg.String() + err.Error() + "\n", 1
	}
	res, binding, err := bcl.Execute(prog, bcl.OptTrace(fl.t), bcl.OptStats(fl.s), bcl.OptOutput(&out), bcl.OptLogger(&lg))
	if err != nil {
		return out.String(), lg.String() + err.Error() + "\n", 1
	}
	if fl.r {
		fmt.Fprintf(&out, "result:  %+v\n", res)
		fmt.Fprintf(&out, "binding: %+v\n", binding)
	}
	return out.String(), lg.String(), 0
}

// argVectors gives equivalent argument vectors for a flag set and a file argument.
func argVectors(r *rand.Rand, fl cliFlags, file string) [][]string {
	type fdef struct {
		on          bool
		short, long string
	}
	fd := []fdef{{fl.d, "-d", "--disasm"}, {fl.t, "-t", "--trace"}, {fl.r, "-r", "--result"}, {fl.s, "-s", "--stats"}}
	var letters []string
	for _, f := range fd {
		if f.on {
			letters = append(letters, f.short[1:])
		}
	}
	var vs [][]string
	withFile := func(flags []string) {
		// file before, between, after the flags, and after "--"
		for pos := 0; pos <= len(flags); pos++ {
			v := append(append(append([]string{}, flags[:pos]...), file), flags[pos:]...)
			vs = append(vs, v)
		}
		vs = append(vs, append(append(append([]string{}, flags...), "--"), file))
	}
	// all short, in a random order
	perm := r.Perm(len(letters))
	var short, long []string
	for _, k := range perm {
		short = append(short, "-"+letters[k])
	}
	for _, f := range fd {
		if f.on {
			long = append(long, f.long)
		}
	}
	withFile(short)
	withFile(long)
	// mixed spellings
	var mixed []string
	for _, f := range fd {
		if f.on {
			if r.Intn(2) == 0 {
				mixed = append(mixed, f.short)
			} else {
				mixed = append(mixed, f.long)
			}
		}
	}
	r.Shuffle(len(mixed), func(a, b int) { mixed[a], mixed[b] = mixed[b], mixed[a] })
	withFile(mixed)
	// clusters in any letter order, split clusters, repeated letters
	if len(letters) >= 2 {
		for k := 0; k < 3; k++ {
			p := r.Perm(len(letters))
			cl := "-"
			for _, x := range p {
				cl += letters[x]
			}
			withFile([]string{cl})
			cut := 1 + r.Intn(len(letters)-1)
			a, b := "-", "-"
			for j, x := range p {
				if j < cut {
					a += letters[x]
				} else {
					b += letters[x]
				}
			}
			withFile([]string{a, b})
		}
		withFile([]string{"-" + strings.Join(letters, "") + letters[0]})
	}
	return vs
}

func c18Programs() []string {
	return []string{
		"print 1\nprint \"two\"\n",
		"var x = 2\ndef blk \"n\" { f = x * 21; g = \"s\" }\nbind blk -> struct\nprint x\n",
		"def a { x = 1 }\ndef a \"b\" { x = 2 }\nbind a:all -> slice\nbind a:last -> struct\n",
		"print 1 +\nvar = 2\n",
		"print @\n",
		"print 1\nprint 1/0\nprint 2\n",
		"def a { x = y }\n",
		"",
		"# only a comment",
		"print \"é漢\" + 1.5\n",
		"\nprint 1\nprint 1/0\n",
		"\n\ndef a { x = y }\n",
		"\r\n# c\nvar x = 1\ndef b { f = x / 0 }\nbind b -> struct\nbind b -> struct\n",
	}
}

// c18Pages: the program sits behind a comment sized so that the 4096-byte boundary of the tool's reads falls
// at every offset of the program in turn; the tool (file argument and standard input) must print what the
// library's bytes API prints for the same bytes, and exit accordingly.
func c18Pages(c *core.Ctx, i int64, dir string, prog []byte) {
	os.MkdirAll(dir, 0o755)
	file := filepath.Join(dir, fmt.Sprintf("%dpages.bcl", i))
	defer os.Remove(file)
	for off := 0; off <= len(prog) && off <= 90; off++ {
		src := append([]byte("#"+strings.Repeat("x", 4096-off-2)+"\n"), prog...)
		if err := os.WriteFile(file, src, 0o644); err != nil {
			c.Inconclusive("cannot write temp file")
			return
		}
		var out, lg bytes.Buffer
		_, _, err := bcl.Interpret(src, bcl.OptOutput(&out), bcl.OptLogger(&lg))
		wantExit := 0
		if err != nil {
			wantExit = 1
		}
		for k, args := range [][]string{{filepath.Base(file)}, {}, {"-"}} {
			stdin := ""
			if k > 0 {
				stdin = file
			}
			got := runCLI(dir, stdin, args...)
			c.Eval(1)
			if got.timedOut {
				c.Inconclusive("bcl did not finish within 60 s")
				return
			}
			if got.stdout != out.String() || got.exit != wantExit || (wantExit == 1 && !strings.Contains(got.stderr, lg.String())) {
				c.Violation("cli-differs-from-library:page-boundary", fmt.Sprintf("bcl %q on a %d-byte file whose read-page boundary falls at offset %d of the program %q: stdout %q exit %d, the library's bytes API gives %q and exit %d (diagnostics %q vs %q)",
					args, len(src), off, core.Trunc(string(prog), 120), core.Trunc(got.stdout, 200), got.exit, core.Trunc(out.String(), 200), wantExit, core.Trunc(got.stderr, 200), core.Trunc(lg.String(), 200)), nil)
				return
			}
			c.Count("process_runs_with_the_page_boundary_inside_the_program", 1)
		}
	}
	c.Nontrivial(core.Hash("pages", prog))
}

func c18Case(c *core.Ctx, i int64, r *rand.Rand, dir string, src []byte, kind string) {
	os.MkdirAll(dir, 0o755)
	// file stems of every shape: '--bdump' derives the dump name from them
	stem := []string{"p", "calc", "abc", "tunnel", "lib", "x.b", "a.bcl", "b", "l", "cc", "main", "prog.c"}[i%12]
	file := filepath.Join(dir, fmt.Sprintf("%d%s.bcl", i, stem))
	if err := os.WriteFile(file, src, 0o644); err != nil {
		c.Inconclusive("cannot write temp file")
		return
	}
	defer os.Remove(file)
	rel := filepath.Base(file)
	fl := cliFlags{r.Intn(2) == 0, r.Intn(2) == 0, r.Intn(2) == 0, r.Intn(2) == 0}
	if i%5 == 0 {
		fl = cliFlags{}
	}
	det := func(args []string, got procResult, wantOut, wantErr string, wantExit int) map[string]any {
		return map[string]any{"program": core.Trunc(string(src), 1500), "args": fmt.Sprintf("%q", args), "stdout": core.Trunc(got.stdout, 1500), "stderr": core.Trunc(got.stderr, 800), "exit": got.exit,
			"expected_stdout": core.Trunc(wantOut, 1500), "expected_stderr": core.Trunc(wantErr, 800), "expected_exit": wantExit}
	}
	check := func(args []string, stdin string, name string) bool {
		wantOut, wantErr, wantExit := libExpect(file, name, fl)
		got := runCLI(dir, stdin, args...)
		c.Eval(1)
		if got.timedOut {
			c.Inconclusive(fmt.Sprintf("bcl %q did not finish within 60 s", args))
			return false
		}
		if got.stdout != wantOut || got.stderr != wantErr || got.exit != wantExit {
			what := "stdout"
			switch {
			case got.exit != wantExit:
				what = "exit status"
			case got.stderr != wantErr:
				what = "stderr"
			}
			c.Violation("cli-differs-from-library:"+what, fmt.Sprintf("bcl %q: %s differs from the library's result (exit %d, expected %d)", args, what, got.exit, wantExit), det(args, got, wantOut, wantErr, wantExit))
			return false
		}
		c.Count("process_runs_compared_with_library", 1)
		return true
	}
	vs := argVectors(r, fl, rel)
	// quick: a sample of the vectors; thorough: all
	if c.Quick() && len(vs) > 8 {
		r.Shuffle(len(vs), func(a, b int) { vs[a], vs[b] = vs[b], vs[a] })
		vs = vs[:8]
	}
	for _, v := range vs {
		if !check(v, "", rel) {
			return
		}
	}
	c.Count("argument_vectors", int64(len(vs)))
	// standard input: "-" and omitted
	flagsOnly := argVectors(r, fl, "-")
	if !check(flagsOnly[r.Intn(len(flagsOnly))], file, "/dev/stdin") {
		return
	}
	var noFile []string
	for _, a := range flagsOnly[0] {
		if a != "-" {
			noFile = append(noFile, a)
		}
	}
	if !check(noFile, file, "/dev/stdin") {
		return
	}
	// the file given by a name that is not a regular file: /dev/stdin, and a named pipe someone writes the program to
	if i%4 == 1 {
		var withDev []string
		for _, a := range flagsOnly[0] {
			if a == "-" {
				a = "/dev/stdin"
			}
			withDev = append(withDev, a)
		}
		if !check(withDev, file, "/dev/stdin") {
			return
		}
		fifo := filepath.Join(dir, fmt.Sprintf("%dpipe.bcl", i))
		if err := syscall.Mkfifo(fifo, 0o644); err == nil {
			done := make(chan struct{})
			go func() {
				defer close(done)
				if w, err := os.OpenFile(fifo, os.O_WRONLY, 0); err == nil { // blocks until the command opens the pipe
					w.Write(src)
					w.Close()
				}
			}()
			var withPipe []string
			for _, a := range flagsOnly[0] {
				if a == "-" {
					a = filepath.Base(fifo)
				}
				withPipe = append(withPipe, a)
			}
			wantOut, wantErr, wantExit := libExpect(file, filepath.Base(fifo), fl)
			got := runCLI(dir, "", withPipe...)
			c.Eval(1)
			// release the writer if the command never opened the pipe
			if rd, err := os.OpenFile(fifo, os.O_RDONLY|syscall.O_NONBLOCK, 0); err == nil {
				<-done
				rd.Close()
			}
			os.Remove(fifo)
			if got.timedOut {
				c.Inconclusive("run on a named pipe did not finish")
			} else if got.stdout != wantOut || got.stderr != wantErr || got.exit != wantExit {
				c.Violation("cli-differs-from-library:named-pipe", fmt.Sprintf("bcl %q with the file being a named pipe: outcome differs from the library's (exit %d, expected %d)", withPipe, got.exit, wantExit), det(withPipe, got, wantOut, wantErr, wantExit))
				return
			} else {
				c.Count("process_runs_on_a_named_pipe", 1)
			}
		}
	}
	// standard input arriving through a pipe in two pieces (a writer that pauses)
	if i%6 == 0 && len(src) > 4 {
		wantOut, wantErr, wantExit := libExpect(file, "/dev/stdin", fl)
		cut := 1 + r.Intn(len(src)-1)
		// cut at a line boundary when there is one: each piece is well-formed text on its own
		if k := bytes.IndexByte(src, '\n'); k >= 0 && k+1 < len(src) {
			cut = k + 1
		}
		got := runCLIPiped(dir, src, cut, noFile...)
		c.Eval(1)
		if got.timedOut {
			c.Inconclusive("piped run did not finish")
		} else if got.stdout != wantOut || got.stderr != wantErr || got.exit != wantExit {
			c.Violation("cli-differs-from-library:piped-stdin", fmt.Sprintf("bcl %q with standard input arriving in two pieces (%d + %d bytes): outcome differs from the library's", noFile, cut, len(src)-cut), det(noFile, got, wantOut, wantErr, wantExit))
			return
		} else {
			c.Count("process_runs_with_stdin_in_pieces", 1)
		}
	}
	// --bdump then --bload (flags t and r only: the name line of -d and the parse statistics of -s belong to the source run)
	fl2 := cliFlags{t: fl.t, r: fl.r}
	var f2 []string
	if fl2.t {
		f2 = append(f2, "-t")
	}
	if fl2.r {
		f2 = append(f2, "--result")
	}
	wantOut, wantErr, wantExit := libExpect(file, rel, fl2)
	bfile := strings.TrimSuffix(file, ".bcl") + ".bcb"
	os.Remove(bfile)
	defer os.Remove(bfile)
	var dumpArgs []string
	explicit := filepath.Join(dir, fmt.Sprintf("x%d.bin", i))
	defer os.Remove(explicit)
	useExplicit := r.Intn(2) == 0
	if useExplicit {
		dumpArgs = append(append([]string{"--bdump=" + explicit}, f2...), rel)
		bfile = explicit
	} else {
		dumpArgs = append(append([]string{}, f2...), rel, "--bdump")
	}
	got := runCLI(dir, "", dumpArgs...)
	c.Eval(1)
	if got.stdout != wantOut || got.stderr != wantErr || got.exit != wantExit {
		c.Violation("cli-bdump-changes-outcome", fmt.Sprintf("bcl %q: outcome differs from the run without --bdump", dumpArgs), det(dumpArgs, got, wantOut, wantErr, wantExit))
		return
	}
	parseOK := !strings.Contains(wantErr, "combined errors from parse")
	if _, err := os.Stat(bfile); parseOK != (err == nil) {
		if parseOK {
			c.Violation("cli-bdump-no-file", fmt.Sprintf("bcl %q wrote no dump file %s", dumpArgs, bfile), det(dumpArgs, got, wantOut, wantErr, wantExit))
			return
		}
	}
	if parseOK {
		loads := [][]string{append([]string{"--bload", bfile}, f2...), append(append([]string{}, f2...), "--bload="+bfile), append([]string{"--bload"}, f2...)}
		for k, la := range loads {
			stdin := ""
			if k == 2 {
				stdin = bfile
			}
			g2 := runCLI(dir, stdin, la...)
			c.Eval(1)
			if g2.stdout != wantOut || g2.stderr != wantErr || g2.exit != wantExit {
				c.Violation("cli-bload-differs", fmt.Sprintf("bcl %q: output or exit status differs from the direct run of the source", la), det(la, g2, wantOut, wantErr, wantExit))
				return
			}
			c.Count("bload_runs_compared", 1)
		}
		// the dump arriving on standard input through a pipe, in two pieces with a pause ('cat p.bcb | bcl --bload'), also as '--bload -'
		if data, rerr := os.ReadFile(bfile); rerr == nil && len(data) > 4 && i%2 == 0 {
			la := append([]string{"--bload"}, f2...)
			if i%4 == 2 {
				la = append(append([]string{}, f2...), "--bload", "-")
			}
			g3 := runCLIPiped(dir, data, []int{1, 2, 3, 4, 5, len(data) / 2, len(data) - 1}[int(i/4)%7], la...)
			c.Eval(1)
			if g3.timedOut {
				c.Inconclusive("piped --bload run did not finish")
			} else if g3.stdout != wantOut || g3.stderr != wantErr || g3.exit != wantExit {
				c.Violation("cli-bload-differs", fmt.Sprintf("bcl %q with the dump arriving through a pipe: output or exit status differs from the direct run of the source", la), det(la, g3, wantOut, wantErr, wantExit))
				return
			} else {
				c.Count("bload_runs_with_the_dump_on_a_pipe", 1)
			}
		}
	}
	c.Count("programs_"+kind, 1)
	c.Nontrivial(core.Hash(src, fmt.Sprint(fl)))
	if c.WantSample() {
		c.Sample(map[string]any{"program": core.Trunc(string(src), 200), "flags": fmt.Sprintf("%+v", fl), "vectors": len(vs), "example_vector": vs[0], "exit": wantExit})
	}
}

func c18Usage(c *core.Ctx, dir string) {
	os.MkdirAll(dir, 0o755)
	ok := filepath.Join(dir, "ok.bcl")
	os.WriteFile(ok, []byte("print 1\n"), 0o644)
	os.WriteFile(filepath.Join(dir, "noext"), []byte("print 1\n"), 0o644)
	os.MkdirAll(filepath.Join(dir, "adir.bcl"), 0o755)
	type uc struct {
		args  []string
		stdin string
		exit  int
		what  string
	}
	cases := []uc{
		{[]string{"-x", "ok.bcl"}, "", 2, "unknown short flag"},
		{[]string{"--nope", "ok.bcl"}, "", 2, "unknown long flag"},
		{[]string{"ok.bcl", "--nope"}, "", 2, "unknown long flag after the file"},
		{[]string{"-d1", "ok.bcl"}, "", 2, "cluster with a non-letter"},
		{[]string{"-dx", "ok.bcl"}, "", 2, "cluster with an unknown letter"},
		{[]string{"--d", "ok.bcl"}, "", 2, "malformed long flag"},
		{[]string{"ok.bcl", "ok.bcl"}, "", 2, "two files"},
		{[]string{"-", "ok.bcl"}, ok, 2, "standard input and a file"},
		{[]string{"ok.bcl", "-"}, ok, 2, "a file and standard input"},
		{[]string{"-", "-"}, ok, 2, "standard input twice"},
		{[]string{"-r", "-", "-t", "noext"}, ok, 2, "standard input and a file between flags"},
		{[]string{"-d", "ok.bcl", "-t", "noext"}, "", 2, "two files between flags"},
		{[]string{"--bdump"}, ok, 2, "--bdump without a derivable name (stdin)"},
		{[]string{"--bdump", "-"}, ok, 2, "--bdump with '-'"},
		{[]string{"--bdump", "noext"}, "", 2, "--bdump with a file not ending in .bcl"},
		{[]string{"--bdumpx", "ok.bcl"}, "", 2, "malformed --bdump"},
		{[]string{"--bloadx", "ok.bcl"}, "", 2, "malformed --bload"},
		{[]string{"--bload=x.bcb", "ok.bcl"}, "", 2, "--bload=F together with FILE"},
		{[]string{"missing.bcl"}, "", 1, "missing file"},
		{[]string{"-d", "missing.bcl"}, "", 1, "missing file with a flag"},
		{[]string{"adir.bcl"}, "", 1, "a directory as input"},
		{[]string{"--bload", "missing.bcb"}, "", 1, "missing bytecode file"},
		{[]string{"--bload", "ok.bcl"}, "", 1, "source given to --bload"},
		{[]string{"--bdump=/nonexistent-dir/x.bcb", "ok.bcl"}, "", 1, "dump file cannot be created"},
		{[]string{"--bdump=/dev/full", "ok.bcl"}, "", 1, "dump file cannot be written (device full)"},
		{[]string{"ok.bcl"}, "", 0, "plain run"},
		{[]string{"--", "ok.bcl"}, "", 0, "file after --"},
		{[]string{"-h"}, "", 0, "help"},
	}
	// the same flag given twice, with and without a file name, in either order
	for k, pair := range [][2][]string{
		{{"--bdump=r1.bcb", "--bdump", "ok.bcl"}, {"--bdump", "--bdump=r2.bcb", "ok.bcl"}},
		{{"ok.bcl", "--bdump=r3.bcb", "--bdump"}, {"--bdump", "ok.bcl", "--bdump=r4.bcb"}},
	} {
		a, b := runCLI(dir, "", pair[0]...), runCLI(dir, "", pair[1]...)
		c.Eval(2)
		_, e1 := os.Stat(filepath.Join(dir, fmt.Sprintf("r%d.bcb", 2*k+1)))
		_, e2 := os.Stat(filepath.Join(dir, fmt.Sprintf("r%d.bcb", 2*k+2)))
		if a.exit != b.exit || a.stdout != b.stdout || a.stderr != b.stderr || (e1 == nil) != (e2 == nil) || e1 != nil {
			c.Violation("cli-flag-order:repeated-bdump", fmt.Sprintf("bcl %q and bcl %q differ: exit %d/%d, dump written %v/%v", pair[0], pair[1], a.exit, b.exit, e1 == nil, e2 == nil),
				map[string]any{"stdout_a": a.stdout, "stdout_b": b.stdout, "stderr_a": a.stderr, "stderr_b": b.stderr})
		} else {
			c.Count("usage_and_io_error_cases", 1)
		}
	}
	// a dump file name containing '=' ; loading it by FILE argument
	if pre := runCLI(dir, "", "--bdump=env=prod.bcb", "ok.bcl"); true {
		_, e1 := os.Stat(filepath.Join(dir, "env=prod.bcb"))
		ld := runCLI(dir, "", "--bload", "env=prod.bcb")
		c.Eval(2)
		if pre.exit != 0 || e1 != nil || ld.exit != 0 || ld.stdout != pre.stdout {
			c.Violation("cli-bdump-file-name", fmt.Sprintf("bcl --bdump=env=prod.bcb ok.bcl: exit %d, file written: %v; --bload env=prod.bcb: exit %d stderr %q", pre.exit, e1 == nil, ld.exit, ld.stderr), nil)
		} else {
			c.Count("usage_and_io_error_cases", 1)
		}
	}
	// dump file names of unusual shape: starting with a dash, a dot, containing blanks; load them back, re-dump them
	for _, bn := range []string{"-out.bcb", "--x.bcb", ".hidden.bcb", "a b.bcb", "-", "x.bcl", "d.bcb.bcb"} {
		pre := runCLI(dir, "", "--bdump="+bn, "ok.bcl")
		c.Eval(1)
		if bn == "-" {
			continue // the documentation does not say what '-' means as a dump file
		}
		_, e1 := os.Stat(filepath.Join(dir, bn))
		ld := runCLI(dir, "", "--bload="+bn)
		re := runCLI(dir, "", "--bload="+bn, "--bdump="+bn+".again")
		x, _ := os.ReadFile(filepath.Join(dir, bn))
		y, _ := os.ReadFile(filepath.Join(dir, bn+".again"))
		c.Eval(2)
		if pre.exit != 0 || pre.stdout != "1\n" || e1 != nil || ld.exit != 0 || ld.stdout != pre.stdout || re.exit != 0 || len(x) == 0 || !bytes.Equal(x, y) {
			c.Violation("cli-bdump-file-name", fmt.Sprintf("bcl --bdump=%s ok.bcl: exit %d stdout %q stderr %q, file written: %v; --bload=%s: exit %d stderr %q; re-dump: exit %d, same bytes: %v", bn, pre.exit, pre.stdout, core.Trunc(pre.stderr, 200), e1 == nil, bn, ld.exit, core.Trunc(ld.stderr, 200), re.exit, bytes.Equal(x, y)), nil)
		} else {
			c.Count("usage_and_io_error_cases", 1)
		}
	}
	// re-dump of a loaded program onto the file it was loaded from (either flag order), then load it again
	if pre := runCLI(dir, "", "--bdump=inplace.bcb", "ok.bcl"); pre.exit == 0 {
		before, _ := os.ReadFile(filepath.Join(dir, "inplace.bcb"))
		for _, av := range [][]string{{"--bload", "inplace.bcb", "--bdump=inplace.bcb"}, {"--bdump=inplace.bcb", "--bload=inplace.bcb"}} {
			g := runCLI(dir, "", av...)
			after, _ := os.ReadFile(filepath.Join(dir, "inplace.bcb"))
			c.Eval(1)
			if g.exit != 0 || g.stdout != pre.stdout || !bytes.Equal(before, after) {
				c.Violation("cli-redump-in-place", fmt.Sprintf("bcl %q: exit %d stdout %q stderr %q; file unchanged: %v", av, g.exit, g.stdout, g.stderr, bytes.Equal(before, after)), nil)
				break
			}
			c.Count("usage_and_io_error_cases", 1)
		}
	}
	// a dump written over an existing longer dump must be exactly the new dump
	{
		os.WriteFile(filepath.Join(dir, "long.bcl"), []byte(strings.Repeat("print 12345\n", 200)), 0o644)
		a := runCLI(dir, "", "--bdump=over.bcb", "long.bcl")
		b := runCLI(dir, "", "--bdump=over.bcb", "ok.bcl")
		cref := runCLI(dir, "", "--bdump=fresh.bcb", "ok.bcl")
		x, _ := os.ReadFile(filepath.Join(dir, "over.bcb"))
		y, _ := os.ReadFile(filepath.Join(dir, "fresh.bcb"))
		c.Eval(3)
		if a.exit != 0 || b.exit != 0 || cref.exit != 0 || len(y) == 0 || !bytes.Equal(x, y) {
			c.Violation("cli-bdump-over-existing", fmt.Sprintf("dumping over an existing longer dump leaves %d bytes, a fresh dump of the same program has %d", len(x), len(y)), nil)
		} else {
			c.Count("usage_and_io_error_cases", 1)
		}
	}
	if pre := runCLI(dir, "", "--bdump=l.bcb", "ok.bcl"); pre.exit == 0 {
		a, b := runCLI(dir, "", "--bload=l.bcb", "--bload"), runCLI(dir, "", "--bload", "--bload=l.bcb")
		c.Eval(2)
		if a.exit != b.exit || a.stdout != b.stdout || a.stderr != b.stderr || a.exit != 0 {
			c.Violation("cli-flag-order:repeated-bload", fmt.Sprintf("'--bload=F --bload' and '--bload --bload=F' differ: exit %d/%d stderr %q / %q", a.exit, b.exit, a.stderr, b.stderr), nil)
		} else {
			c.Count("usage_and_io_error_cases", 1)
		}
	}
	// every kind of standard input, with the file omitted and given as '-': an empty input is an empty program
	os.WriteFile(filepath.Join(dir, "empty.bcl"), nil, 0o644)
	for _, stdin := range []string{"/dev/null", filepath.Join(dir, "empty.bcl"), ok} {
		for _, args := range [][]string{{}, {"-"}} {
			got := runCLI(dir, stdin, args...)
			c.Eval(1)
			want := ""
			if stdin == ok {
				want = "1\n"
			}
			if got.timedOut {
				c.Inconclusive(fmt.Sprintf("bcl %q < %s did not finish", args, stdin))
				continue
			}
			if got.exit != 0 || got.stdout != want || got.stderr != "" {
				c.Violation("cli-differs-from-library:kind-of-standard-input", fmt.Sprintf("bcl %q with standard input %s: exit %d, stdout %q, stderr %q; the library gives exit 0, %q and no diagnostics", args, stdin, got.exit, got.stdout, core.Trunc(got.stderr, 300), want),
					map[string]any{"args": fmt.Sprintf("%q", args), "stdin": stdin})
				continue
			}
			c.Count("usage_and_io_error_cases", 1)
			c.Nontrivial(core.Hash("stdin-kind", stdin, fmt.Sprint(args)))
		}
	}
	for _, u := range cases {
		got := runCLI(dir, u.stdin, u.args...)
		c.Eval(1)
		if got.timedOut {
			c.Inconclusive(fmt.Sprintf("bcl %q did not finish", u.args))
			continue
		}
		bad := got.exit != u.exit
		why := fmt.Sprintf("exit status %d, documented %d", got.exit, u.exit)
		if !bad && u.exit != 0 && strings.TrimSpace(got.stderr) == "" {
			bad, why = true, "no message on standard error"
		}
		if !bad && u.exit != 0 && got.stdout != "" && u.exit == 2 {
			bad, why = true, fmt.Sprintf("usage error but standard output has %q", got.stdout)
		}
		if bad {
			c.Violation("cli-exit-status:"+u.what, fmt.Sprintf("bcl %q (%s): %s", u.args, u.what, why),
				map[string]any{"args": fmt.Sprintf("%q", u.args), "stdout": got.stdout, "stderr": got.stderr, "exit": got.exit})
			continue
		}
		c.Count("usage_and_io_error_cases", 1)
		c.Nontrivial(core.Hash("usage", fmt.Sprint(u.args)))
	}
}

func init() {
	core.Register(&core.Check{
		ID:    "C18",
		Level: "exploration",
		Rule: "process monitor on the built cmd/bcl (rebuilt from /repo by run.sh): stdout, stderr and exit status of each child process are compared with what the library gives in-process for the same file, input name and options (ParseFile(disasm, stats) + Execute(trace, stats) + the documented result lines; exit 0 / 1), across equivalent argument vectors: every subset of -d -t -r -s spelled short, long, mixed, clustered in any letter order, split clusters, repeated letters, with the file before, between, after the flags and after '--', given as '-' or omitted with standard input. " +
			"23 usage / I/O error cases must exit with the documented status 2 / 1 and a message on stderr. '--bdump' (derived and explicit name) must not change the outcome and '--bload F', '--bload=F' and '--bload < F' must reproduce output and exit status of the direct run. Every child gets an explicit stdin and a 60 s watchdog (firing = inconclusive). " +
			"distinct = hash(program, flags); non-trivial = all vectors of the case ran to exit and were compared Also: standard input through a pipe in two pieces with a pause; file stems ending in b/c/l/.; --bdump=/dev/full; the same flag given twice in both orders; a dump name containing '='; re-dump onto the loaded file; a dump over an existing longer dump. Also: the file given by a name that is not a regular file (/dev/stdin, a named pipe that a writer feeds); the bare command and '-' on every kind of standard input; '-' together with a file name (usage error); dump file names starting with a dash or a dot or containing blanks, loaded back and re-dumped (/dev/null, an empty regular file, a program file). The 4096-byte read boundary swept over five programs (file argument, bare command, '-'), compared with the library's bytes API; generated programs start with a line end, CR LF, a comment or blanks in turn.",
		Assumptions:   []string{"the library's in-process result is the reference (C01-C04, C19 check the library itself)"},
		MinNontrivial: 60,
		Run: func(c *core.Ctx) {
			if _, err := os.Stat(cliBin); err != nil {
				c.Inconclusive("cmd/bcl binary not built")
				return
			}
			dir := filepath.Join(c.Dir, fmt.Sprintf("c18-%d-%d", c.Shard, os.Getpid()))
			defer os.RemoveAll(dir)
			var i int64
			if c.Mine(i) {
				c.Begin(i)
				c18Usage(c, filepath.Join(dir, "usage"))
			}
			i++
			for _, p := range c18Programs() {
				for rep := 0; rep < c.Pick(4, 32); rep++ {
					if c.Mine(i) {
						c.Begin(i)
						c18Case(c, i, c.Rand(i), dir, []byte(p), "fixed")
					}
					i++
				}
			}
			for _, p := range []string{"print 0x1F + 0Xa0 - 017 * 1.5e+3\n", "print 1 <= 2 != (3 >= 4) -> 5\n", "var s = \"a\\\"b\\\\\\x41\\u00e9é漢\" print s # c\n", "def b \"n\" { f = 1 } bind b:all -> slice\n", "print 1\r\nprint 2 @\n"} {
				if c.Mine(i) {
					c.Begin(i)
					c18Pages(c, i, dir, []byte(p))
				}
				i++
			}
			n := int64(c.Pick(600, 12000))
			for k := int64(0); k < n; k++ {
				if c.Mine(i) {
					r := c.Rand(i)
					cfg := randProfile(r)
					cfg.HostileLits = false
					cfg.ErrPct = 15
					cfg.CompileErrPct = 10
					g := lang.NewGen(r, cfg)
					src := lang.Layout(lang.Flatten(g.Program()), lang.LayoutOpts{StmtNewlines: true}, r).Src
					// layout in front of the first token (the first byte of a file may be a line end)
					src = append([]byte([]string{"", "\n", "\n\n", "# c\n", "\r\n", " \t"}[k%6]), src...)
					if vetMemory(src) {
						c.Begin(i)
						c18Case(c, i, r, dir, src, "generated")
					}
				}
				i++
			}
		},
	})
}
