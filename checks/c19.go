package checks

import (
	"bytes"
	"errors"
	"fmt"
	"io"
	"regexp"
	"sort"
	"strconv"
	"strings"

	"github.com/wkhere/bcl"

	"verif/internal/bc"
	"verif/internal/core"
	"verif/internal/lang"
)

var (
	reHeader  = regexp.MustCompile(`^== .* ==$`)
	reInstr   = regexp.MustCompile(`^(\d{4,}) (?: {0,5}\d+:\d+|     \|)  \S`)
	reStack   = regexp.MustCompile(`^ {13}\d+: `)
	reStats   = regexp.MustCompile(`^[px]stats\.\w+: *-?\d+$`)
	reOpsRead = regexp.MustCompile(`^xstats\.opsRead: *(\d+)$`)
)

type introspection struct {
	program []string // lines that are not introspection text
	instr   []int    // offsets of instruction lines, in order
	stacks  int
	stats   []string
	opsRead int
	headers int
}

func splitOutput(out string) introspection {
	var in introspection
	in.opsRead = -1
	if out == "" {
		return in
	}
	for _, ln := range strings.Split(strings.TrimSuffix(out, "\n"), "\n") {
		switch {
		case reHeader.MatchString(ln):
			in.headers++
		case reInstr.MatchString(ln):
			m := reInstr.FindStringSubmatch(ln)
			off, _ := strconv.Atoi(m[1])
			in.instr = append(in.instr, off)
		case reStack.MatchString(ln):
			in.stacks++
		case reStats.MatchString(ln):
			in.stats = append(in.stats, ln)
			if m := reOpsRead.FindStringSubmatch(ln); m != nil {
				in.opsRead, _ = strconv.Atoi(m[1])
			}
		default:
			in.program = append(in.program, ln)
		}
	}
	return in
}

type c19Result struct {
	outParse string // output written during Parse/Load (disasm, pstats)
	outExec  string // output written during Execute (program output, trace, xstats)
	log      string
	blocks   string
	binding  string
	err      string
	pan      string
	pcs      []int
	code     []byte
	parseErr bool
}

// c19Route runs one route with one option combination.
func c19Route(route int, src []byte, dump []byte, d, t, s bool) c19Result {
	var r c19Result
	var out, lg bytes.Buffer
	opts := []bcl.Option{bcl.OptOutput(&out), bcl.OptLogger(&lg), bcl.OptDisasm(d), bcl.OptTrace(t), bcl.OptStats(s)}
	var pcs []int
	bcl.VerifSetVMHook(func(st bcl.VerifVMState) { pcs = append(pcs, st.PC) })
	defer bcl.VerifSetVMHook(nil)
	pan, stack := protect(func() {
		switch route {
		case 0, 2:
			var p *bcl.Prog
			var err error
			if route == 0 {
				p, err = bcl.Parse(src, "c19", opts...)
			} else {
				p, err = bcl.LoadProg(bytes.NewReader(dump), "c19", opts...)
			}
			r.outParse = out.String()
			out.Reset()
			if err != nil {
				r.err = err.Error()
				r.parseErr = true
				return
			}
			r.code = bcl.VerifProgParts(p).Code
			bl, bi, xerr := bcl.Execute(p, opts...)
			r.blocks, r.binding = canonBlocks(bl), canonBinding(bi)
			if xerr != nil {
				r.err = xerr.Error()
			}
		case 1:
			bl, bi, err := bcl.Interpret(src, opts...)
			r.blocks, r.binding = canonBlocks(bl), canonBinding(bi)
			if err != nil {
				r.err = err.Error()
			}
		}
	})
	if pan != "" {
		r.pan = pan + "\n" + core.Trunc(stack, 800)
	}
	r.outExec = out.String()
	r.log = lg.String()
	r.pcs = pcs
	return r
}

func c19Program(c *core.Ctx, i int64, src []byte) {
	c.NoteInput("src", src)
	if !vetMemory(src) {
		return
	}
	var dump []byte
	if p, err := bcl.Parse(src, "c19", bcl.OptOutput(new(bytes.Buffer)), bcl.OptLogger(new(bytes.Buffer))); err == nil {
		dump, _, _, _ = dumpOf(p)
	}
	for route := 0; route < 3; route++ {
		if route == 2 && dump == nil {
			continue
		}
		routeName := []string{"Parse+Execute", "Interpret", "LoadProg+Execute"}[route]
		base := c19Route(route, src, dump, false, false, false)
		c.Eval(1)
		det := func(combo string, got c19Result) map[string]any {
			return map[string]any{"source": core.Trunc(string(src), 2000), "route": routeName, "options": combo,
				"output_with_options": core.Trunc(got.outParse+got.outExec, 3000), "output_without": core.Trunc(base.outExec, 1000)}
		}
		if base.pan != "" {
			c.Violation("panic-without-options", routeName+" panicked: "+base.pan, det("none", base))
			return
		}
		baseIn := splitOutput(base.outParse + base.outExec)
		lineChecks := len(baseIn.instr) == 0 && baseIn.stacks == 0 && len(baseIn.stats) == 0 && baseIn.headers == 0
		if !lineChecks {
			c.Count("programs_whose_own_output_looks_like_introspection", 1)
		}
		for combo := 1; combo < 8; combo++ {
			d, t, s := combo&4 != 0, combo&2 != 0, combo&1 != 0
			name := fmt.Sprintf("disasm=%v trace=%v stats=%v", d, t, s)
			got := c19Route(route, src, dump, d, t, s)
			c.Eval(1)
			if got.pan != "" {
				c.Violation("panic-with-options", fmt.Sprintf("%s with %s panicked: %s", routeName, name, got.pan), det(name, got))
				return
			}
			switch {
			case got.blocks != base.blocks:
				c.Violation("options-change-blocks", fmt.Sprintf("%s: blocks differ with %s", routeName, name), det(name, got))
				return
			case got.binding != base.binding:
				c.Violation("options-change-binding", fmt.Sprintf("%s: binding differs with %s", routeName, name), det(name, got))
				return
			case got.err != base.err:
				c.Violation("options-change-error", fmt.Sprintf("%s: error %q with %s, %q without", routeName, got.err, name, base.err), det(name, got))
				return
			case got.log != base.log:
				c.Violation("options-change-log", fmt.Sprintf("%s: the log writer received %q with %s, %q without (introspection text belongs on the output writer only)", routeName, core.Trunc(got.log, 300), name, core.Trunc(base.log, 300)), det(name, got))
				return
			}
			if !lineChecks {
				continue
			}
			in := splitOutput(got.outParse + got.outExec)
			if strings.Join(in.program, "\n") != strings.Join(baseIn.program, "\n") {
				c.Violation("options-change-output", fmt.Sprintf("%s: the lines printed by the program differ with %s: %q vs %q", routeName, name, core.Trunc(strings.Join(in.program, "\n"), 300), core.Trunc(strings.Join(baseIn.program, "\n"), 300)), det(name, got))
				return
			}
			if route == 1 {
				continue // Interpret mixes parse-time and run-time text; the line-format checks use the split routes
			}
			if d && !got.parseErr {
				ins, ierr := bc.Instructions(got.code)
				lines := splitOutput(got.outParse).instr
				if ierr == nil {
					ok := len(lines) == len(ins)
					for k := 0; ok && k < len(ins); k++ {
						ok = lines[k] == ins[k].Off
					}
					if !ok {
						c.Violation("disassembly-listing", fmt.Sprintf("%s: the disassembly lists offsets %v, the instructions are at %v", routeName, truncInts(lines), truncInts(offsOf(ins))), det(name, got))
						return
					}
					c.Count("disassemblies_checked_against_instruction_boundaries", 1)
				}
			}
			if t && !got.parseErr {
				ex := splitOutput(got.outExec)
				if fmt.Sprint(ex.instr) != fmt.Sprint(got.pcs) {
					c.Violation("trace-listing", fmt.Sprintf("%s: the trace lists offsets %v, the VM executed %v", routeName, truncInts(ex.instr), truncInts(got.pcs)), det(name, got))
					return
				}
				if ex.stacks != len(got.pcs) {
					c.Violation("trace-listing", fmt.Sprintf("%s: %d stack lines for %d executed instructions", routeName, ex.stacks, len(got.pcs)), det(name, got))
					return
				}
				if s && ex.opsRead != len(ex.instr) {
					c.Violation("trace-vs-statistics", fmt.Sprintf("%s: %d instructions traced, statistics report opsRead=%d", routeName, len(ex.instr), ex.opsRead), det(name, got))
					return
				}
				c.Count("traces_checked_against_vm_hook", 1)
				c.Count("traced_instructions", int64(len(ex.instr)))
			}
			if s && !t && !got.parseErr {
				ex := splitOutput(got.outExec)
				if ex.opsRead != len(got.pcs) {
					c.Violation("trace-vs-statistics", fmt.Sprintf("%s: statistics report opsRead=%d, the VM executed %d instructions", routeName, ex.opsRead, len(got.pcs)), det(name, got))
					return
				}
			}
		}
		// an output writer that fails after k bytes: the options must still only observe
		if route != 2 && i%4 == 0 {
			k := int(i/4) % 300
			fr := func(d, t, s bool) (res string) {
				var lg bytes.Buffer
				w := &failingWriter{limit: k}
				opts := []bcl.Option{bcl.OptOutput(w), bcl.OptLogger(&lg), bcl.OptDisasm(d), bcl.OptTrace(t), bcl.OptStats(s)}
				pan, _ := protect(func() {
					if route == 0 {
						p, err := bcl.Parse(src, "c19", opts...)
						if err != nil {
							res = "parse:" + err.Error()
							return
						}
						bl, bi, xerr := bcl.Execute(p, opts...)
						res = fmt.Sprintf("%s|%s|%v", canonBlocks(bl), canonBinding(bi), xerr)
					} else {
						bl, bi, err := bcl.Interpret(src, opts...)
						res = fmt.Sprintf("%s|%s|%v", canonBlocks(bl), canonBinding(bi), err)
					}
				})
				return res + "|" + pan + "|" + lg.String()
			}
			want := fr(false, false, false)
			for combo := 1; combo < 8; combo++ {
				got := fr(combo&4 != 0, combo&2 != 0, combo&1 != 0)
				c.Eval(1)
				if got != want {
					c.Violation("options-change-outcome-with-failing-writer", fmt.Sprintf("%s with an output writer failing after %d bytes: options %03b give %s, none give %s", routeName, k, combo, core.Trunc(got, 300), core.Trunc(want, 300)), det(fmt.Sprintf("%03b", combo), base))
					return
				}
			}
			c.Count("runs_with_failing_output_writer", 7)
		}
		// an output writer that refuses ONE write (the j-th) and works again afterwards: what the library
		// attempts to write, refused write included, must be what a healthy writer receives
		if route != 2 && i%4 == 1 && lineChecks {
			j := int(i/4) % 40
			for combo := 0; combo < 8; combo++ {
				d, t, s := combo&4 != 0, combo&2 != 0, combo&1 != 0
				var lg bytes.Buffer
				w := &hiccupWriter{failAt: j}
				opts := []bcl.Option{bcl.OptOutput(w), bcl.OptLogger(&lg), bcl.OptDisasm(d), bcl.OptTrace(t), bcl.OptStats(s)}
				pan, _ := protect(func() {
					if route == 0 {
						if p, err := bcl.Parse(src, "c19", opts...); err == nil {
							bcl.Execute(p, opts...)
						}
					} else {
						bcl.Interpret(src, opts...)
					}
				})
				c.Eval(1)
				healthy := c19Route(route, src, dump, d, t, s)
				want := healthy.outParse + healthy.outExec
				if pan != "" || string(w.attempted) != want {
					c.Violation("write-hiccup-changes-output", fmt.Sprintf("%s, options %03b, output writer refusing write %d only: the library attempted %q, a healthy writer receives %q %s", routeName, combo, j+1,
						core.Trunc(firstDiff(string(w.attempted), want), 300), "", pan), det(fmt.Sprintf("%03b", combo), base))
					return
				}
			}
			c.Count("runs_with_an_output_writer_refusing_one_write", 8)
		}
		// writers of other dynamic types: a func adapter (its dynamic type cannot be compared with ==), a struct value
		// holding a slice (likewise) receive what a bytes.Buffer receives; with one writer for Parse and another for
		// Execute the two together receive it; the outcome is the same
		if route != 2 && i%4 == 2 {
			for combo := 0; combo < 8; combo++ {
				d, t, s := combo&4 != 0, combo&2 != 0, combo&1 != 0
				healthy := c19Route(route, src, dump, d, t, s)
				for kind := 0; kind < 3; kind++ {
					var bufA, bufB, lgA bytes.Buffer
					var wA, wB, wL io.Writer
					switch kind {
					case 0:
						wA = writerFunc(func(p []byte) (int, error) { return bufA.Write(p) })
						wB = wA
						wL = writerFunc(func(p []byte) (int, error) { return lgA.Write(p) })
					case 1:
						wA, wL = sliceHolder{[]*bytes.Buffer{&bufA}}, sliceHolder{[]*bytes.Buffer{&lgA}}
						wB = wA
					default:
						wA, wB, wL = &bufA, &bufB, &lgA
					}
					var res string
					pan, _ := protect(func() {
						oA := []bcl.Option{bcl.OptOutput(wA), bcl.OptLogger(wL), bcl.OptDisasm(d), bcl.OptTrace(t), bcl.OptStats(s)}
						oB := []bcl.Option{bcl.OptOutput(wB), bcl.OptLogger(wL), bcl.OptDisasm(d), bcl.OptTrace(t), bcl.OptStats(s)}
						if route == 0 {
							p, err := bcl.Parse(src, "c19", oA...)
							if err != nil {
								res = "||" + err.Error()
								return
							}
							bl, bi, xerr := bcl.Execute(p, oB...)
							res = canonBlocks(bl) + "|" + canonBinding(bi) + "|"
							if xerr != nil {
								res += xerr.Error()
							}
						} else {
							bl, bi, err := bcl.Interpret(src, oA...)
							res = canonBlocks(bl) + "|" + canonBinding(bi) + "|"
							if err != nil {
								res += err.Error()
							}
						}
					})
					c.Eval(1)
					wantRes := healthy.blocks + "|" + healthy.binding + "|" + healthy.err
					kindName := []string{"func adapters", "struct values holding a slice", "one buffer for Parse, another for Execute"}[kind]
					switch {
					case pan != "":
						c.Violation("panic-with-options", fmt.Sprintf("%s, options %03b, writers: %s: panic: %s", routeName, combo, kindName, core.Trunc(pan, 300)), det(fmt.Sprintf("%03b", combo), healthy))
						return
					case res != wantRes || lgA.String() != healthy.log:
						c.Violation("writer-type-changes-outcome", fmt.Sprintf("%s, options %03b, writers: %s: outcome %s / log %q, with plain buffers %s / %q", routeName, combo, kindName, core.Trunc(res, 300), core.Trunc(lgA.String(), 200), core.Trunc(wantRes, 300), core.Trunc(healthy.log, 200)), det(fmt.Sprintf("%03b", combo), healthy))
						return
					case kind == 2 && route == 0:
						// which of the two writers gets the run-time text is not laid down; together they get all of it
						got := strings.Split(bufA.String()+bufB.String(), "\n")
						want := strings.Split(healthy.outParse+healthy.outExec, "\n")
						sort.Strings(got)
						sort.Strings(want)
						if strings.Join(got, "\n") != strings.Join(want, "\n") {
							c.Violation("text-lost-between-two-writers", fmt.Sprintf("%s, options %03b, writers: %s: together they received %q, one buffer receives %q", routeName, combo, kindName,
								core.Trunc(bufA.String()+bufB.String(), 300), core.Trunc(healthy.outParse+healthy.outExec, 300)), det(fmt.Sprintf("%03b", combo), healthy))
							return
						}
					case bufA.String() != healthy.outParse+healthy.outExec:
						c.Violation("text-on-the-wrong-writer", fmt.Sprintf("%s, options %03b, writers: %s: the writer received %q, a buffer %q", routeName, combo, kindName, core.Trunc(bufA.String(), 300), core.Trunc(healthy.outParse+healthy.outExec, 300)), det(fmt.Sprintf("%03b", combo), healthy))
						return
					}
				}
			}
			c.Count("runs_with_writers_of_other_dynamic_types", 24)
		}
		c.Count("routes_"+strings.ReplaceAll(routeName, "+", "_"), 1)
		if base.parseErr {
			c.Count("rejected_programs", 1)
		} else if base.err != "" {
			c.Count("runtime_failing_programs", 1)
		}
	}
	c.Nontrivial(core.Hash(src))
	if c.WantSample() && len(src) < 200 {
		c.Sample(map[string]any{"source": string(src), "routes": 3, "option_combinations": 8})
	}
}

type writerFunc func([]byte) (int, error)

func (f writerFunc) Write(p []byte) (int, error) { return f(p) }

type sliceHolder struct{ to []*bytes.Buffer }

func (h sliceHolder) Write(p []byte) (int, error) { return h.to[0].Write(p) }

// c19BeyondAnyLimit: programs whose string repetition overflows the length arithmetic (outside C06's input
// domain; the library gives up on them the hard way). Whatever happens without options happens with them.
func c19BeyondAnyLimit(c *core.Ctx, i int64, src []byte) {
	c.NoteInput("src", src)
	run := func(route int, d, t, s bool) string {
		var out, lg bytes.Buffer
		opts := []bcl.Option{bcl.OptOutput(&out), bcl.OptLogger(&lg), bcl.OptDisasm(d), bcl.OptTrace(t), bcl.OptStats(s)}
		var res string
		pan, _ := protect(func() {
			if route == 0 {
				p, err := bcl.Parse(src, "c19", opts...)
				if err != nil {
					res = "parse:" + err.Error()
					return
				}
				bl, bi, xerr := bcl.Execute(p, opts...)
				res = fmt.Sprintf("%s|%s|%v", canonBlocks(bl), canonBinding(bi), xerr)
			} else {
				bl, bi, err := bcl.Interpret(src, opts...)
				res = fmt.Sprintf("%s|%s|%v", canonBlocks(bl), canonBinding(bi), err)
			}
		})
		return res + "|panic=" + pan + "|" + lg.String() + "|" + strings.Join(splitOutput(out.String()).program, "\n")
	}
	for route := 0; route < 2; route++ {
		want := run(route, false, false, false)
		for combo := 1; combo < 8; combo++ {
			got := run(route, combo&4 != 0, combo&2 != 0, combo&1 != 0)
			c.Eval(1)
			if got != want {
				c.Violation("options-change-outcome-beyond-limits", fmt.Sprintf("a repetition that overflows: options %03b give %s, none give %s", combo, core.Trunc(got, 300), core.Trunc(want, 300)), map[string]any{"source": string(src)})
				return
			}
		}
	}
	c.Count("overflowing_repetitions_compared_across_options", 1)
	c.Nontrivial(core.Hash(src))
}

// hiccupWriter refuses its failAt-th write (0-based) and takes every other one; attempted keeps all of them.
type hiccupWriter struct {
	failAt    int
	n         int
	attempted []byte
}

func (w *hiccupWriter) Write(p []byte) (int, error) {
	w.attempted = append(w.attempted, p...)
	k := w.n
	w.n++
	if k == w.failAt {
		return 0, errors.New("output sink not ready")
	}
	return len(p), nil
}

func offsOf(ins []bc.Instr) []int {
	var o []int
	for _, in := range ins {
		o = append(o, in.Off)
	}
	return o
}

func truncInts(a []int) string {
	if len(a) > 40 {
		return fmt.Sprint(a[:40]) + fmt.Sprintf("…(%d)", len(a))
	}
	return fmt.Sprint(a)
}

func init() {
	core.Register(&core.Check{
		ID:    "C19",
		Level: "exploration",
		Rule: "metamorphic monitor (options off vs on) + hook ground truth: every program (accepted, rejected by a static error or a token edit, failing at run time) runs through Parse+Execute, Interpret and LoadProg+Execute under all 8 combinations of disassembly, trace and statistics; blocks, binding, error text, log text and the lines printed by the program (introspection lines removed by pattern; programs whose own output matches the patterns count for the result comparison only) must equal the run without options, and no call may panic. " +
			"The disassembly must list exactly the instruction boundaries found by the independent decoder, each once, in order; the trace must list exactly the pc sequence recorded by the VM hook, with one stack line each, as many as xstats.opsRead. " +
			"distinct = hash of source; non-trivial = all 8 combinations were compared on at least one route Fixed programs: C10's boundary programs, programs ending in the operand-stack / block-stack overflow errors, block values and 400-byte strings on the stack. Every fourth program also runs with an output writer that fails after k bytes: blocks, binding, error and log must still be the same for all 8 combinations. Another fourth runs with an output writer that refuses exactly one write (the j-th) and recovers: under each of the 8 combinations the bytes the library attempts to write, the refused write included, must equal what a healthy writer receives. Fixed programs also: string constants of 600..2800 bytes made of continuation bytes, 0xFF bytes, cut characters, U+FFFD and multi-byte characters around offsets 512. Every fourth program also runs, under all 8 combinations, with writers whose dynamic type cannot be compared (func adapters, struct values holding a slice) and with one writer for Parse and another for Execute. Four programs whose string repetition overflows the length arithmetic (outside C06's domain) must end the same way with and without options.",
		Assumptions:   []string{"string values in these programs contain no CR/LF, so introspection text can be separated from program output line by line"},
		MinNontrivial: 1000,
		Run: func(c *core.Ctx) {
			fixed := c10Fixed()
			{
				// programs ending in the stack-overflow runtime error
				var b strings.Builder
				for k := 0; k < 1024; k++ {
					fmt.Fprintf(&b, "var v%d\n", k)
				}
				fixed = append(fixed,
					"def a { def b {} var p = b var q = b x = 1 }\nprint 1\n",
					"def a { def b {} def c {} x = b == c }\n",
					"def a { def b { y = 1 } var p = b z = p and b print 2 }\n",
					"var s = \"ab\" * 200\nprint s\ndef k { f = s + s; g = f == s }\nprint s + 1\n",
					"var s = \"0123456789\" * 26\nvar t = s + \"x\"\nprint t == s\nprint t\n",
					"print \""+strings.Repeat("\\x80", 700)+"\"\n", "var s = \"a"+strings.Repeat("\\x80", 700)+"\"\nprint s\ndef k { f = s }\n",
					"print \""+strings.Repeat("\\xff", 600)+"\"\n", "print \""+strings.Repeat("\\xe6\\xbc", 400)+"\"\n", "print \""+strings.Repeat("é", 300)+"\"\n",
					"print \"a"+strings.Repeat("漢", 400)+"\"\n", "print \""+strings.Repeat("\\ufffd", 300)+"\"\n", "print \""+strings.Repeat("x", 511)+"é"+strings.Repeat("y", 600)+"\"\n",
					"def k \""+strings.Repeat("\\x80", 600)+"\" { f = \""+strings.Repeat("\\xbf", 1100)+"\" }\nprint 1 / 0\n",
					b.String()+"print 1\n", b.String()+"print v3\n", "print "+strings.Repeat("1+(", 1030)+"1"+strings.Repeat(")", 1030)+"\n",
					strings.Repeat("def b { x = 1\n", 17)+strings.Repeat("}\n", 17))
			}
			for k, src := range fixed {
				if c.Mine(int64(k)) && len(src) < 50000 {
					c.Begin(int64(k))
					c19Program(c, int64(k), []byte(src))
					c.Count("fixed_boundary_programs", 1)
				}
			}
			for k, src := range []string{"print \"ab\" * 9223372036854775807\n", "def b { x = 1 }\nprint 7\ndef c { y = \"abc\" * 4611686018427387904 }\n",
				"var n = 4611686018427387904\ndef b \"n\" { x = 1; def in { z = 2 } }\nbind b -> struct\nprint \"abcd\" * n\n", "def b { def in { s = \"é\" * 9223372036854775807 } }\n"} {
				i := int64(len(fixed) + 1000000 + k)
				if c.Mine(i) {
					c.Begin(i)
					c19BeyondAnyLimit(c, i, []byte(src))
				}
			}
			n := int64(c.Pick(15000, 400000))
			for i := int64(len(fixed)); i < n; i++ {
				if !c.Mine(i) {
					continue
				}
				c.Idle()
				r := c.Rand(i)
				cfg := randProfile(r)
				cfg.HostileLits = false
				cfg.ErrPct = 15
				cfg.CompileErrPct = 8
				g := lang.NewGen(r, cfg)
				toks := lang.Flatten(g.Program())
				if i%7 == 6 && len(toks) > 0 {
					pos := r.Intn(len(toks))
					toks = append(append([]lang.Tok{}, toks[:pos]...), toks[pos+1:]...)
				}
				src := lang.Layout(toks, lang.LayoutOpts{StmtNewlines: true}, r).Src
				c.Begin(i)
				c19Program(c, i, src)
			}
		},
	})
}
