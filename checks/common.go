// Package checks holds one file per property: workload + oracle wiring.
package checks

import (
	"bytes"
	"errors"
	"fmt"
	"io"
	"math"
	"regexp"
	"runtime/debug"
	"sort"
	"strconv"
	"strings"

	"github.com/wkhere/bcl"

	"verif/internal/core"
	"verif/internal/lang"
	"verif/internal/mon"
)

// ImplResult is what the real library did for one input.
type ImplResult struct {
	Out, Log string
	Blocks   []bcl.Block
	Binding  bcl.Binding
	Err      error
	Panic    string
	Stack    string
}

func protect(f func()) (pan, stack string) {
	defer func() {
		if x := recover(); x != nil {
			pan = fmt.Sprint(x)
			stack = string(debug.Stack())
		}
	}()
	f()
	return
}

// panicSig makes a signature from a recovered panic: message class and the
// innermost library frame.
func panicSig(pan, stack string) string {
	fn := ""
	lines := strings.Split(stack, "\n")
	seenPanic := false
	for _, l := range lines {
		l = strings.TrimSpace(l)
		if strings.HasPrefix(l, "panic(") {
			seenPanic = true
			continue
		}
		if seenPanic && strings.HasPrefix(l, "github.com/wkhere/bcl.") {
			fn = l
			if k := strings.LastIndex(fn, "("); k > 0 {
				fn = fn[:k]
			}
			break
		}
	}
	var b strings.Builder
	for _, r := range pan {
		if r >= '0' && r <= '9' {
			continue
		}
		b.WriteRune(r)
	}
	msg := b.String()
	if len(msg) > 60 {
		msg = msg[:60]
	}
	return "panic:" + msg + "@" + fn
}

// Interpret runs bcl.Interpret on src with captured writers and panic recovery.
func Interpret(src []byte, opts ...bcl.Option) ImplResult {
	var r ImplResult
	var out, lg bytes.Buffer
	o := append([]bcl.Option{bcl.OptOutput(&out), bcl.OptLogger(&lg)}, opts...)
	r.Panic, r.Stack = protect(func() {
		r.Blocks, r.Binding, r.Err = bcl.Interpret(src, o...)
	})
	r.Out, r.Log = out.String(), lg.String()
	return r
}

// switchWriter forwards to the buffer of the call at hand, or fails.
type switchWriter struct {
	w    io.Writer
	fail bool
}

func (s *switchWriter) Write(p []byte) (int, error) {
	if s.fail || s.w == nil {
		return 0, errors.New("injected write error")
	}
	return s.w.Write(p)
}

var (
	reOut, reLog switchWriter
	reOpts       []bcl.Option
)

// InterpretReused is Interpret through ONE option slice that is built once per process and reused for
// every call, the way an application holds its options. Before its first use a few calls are made through
// it whose output and log writers fail: nothing of that may stick to the option values.
// (Single goroutine only.)
func InterpretReused(src []byte) ImplResult {
	primeReused()
	if h := core.Hash(src); h%16 == 3 {
		EarlierCall(h >> 4)
	}
	var r ImplResult
	var out, lg bytes.Buffer
	reOut.w, reLog.w = &out, &lg
	r.Panic, r.Stack = protect(func() {
		r.Blocks, r.Binding, r.Err = bcl.Interpret(src, reOpts...)
	})
	reOut.w, reLog.w = nil, nil
	r.Out, r.Log = out.String(), lg.String()
	return r
}

func primeReused() {
	if reOpts == nil {
		reOpts = []bcl.Option{bcl.OptOutput(&reOut), bcl.OptLogger(&reLog)}
		reOut.fail, reLog.fail = true, true
		protect(func() {
			bcl.Interpret([]byte("print 1\ndef b { x = 1 }\nbind b -> struct\nbind b -> struct\nprint 1 / 0\n"), reOpts...)
		})
		protect(func() { bcl.Parse([]byte("var = 1\nprint +\nprint @\n"), "prime", reOpts...) })
		reOut.fail, reLog.fail = false, false
	}
}

// ParseOnly runs bcl.Parse, through the option slice that is reused for every call (see InterpretReused).
// (Single goroutine only.)
func ParseOnly(src []byte, name string) (prog *bcl.Prog, log string, err error, pan, stack string) {
	primeReused()
	if h := core.Hash(src); h%16 == 5 {
		EarlierCall(h >> 4)
	}
	var lg, out bytes.Buffer
	reOut.w, reLog.w = &out, &lg
	pan, stack = protect(func() {
		prog, err = bcl.Parse(src, name, reOpts...)
	})
	reOut.w, reLog.w = nil, nil
	return prog, lg.String(), err, pan, stack
}

var diagRe = regexp.MustCompile(`^line (\d+):(\d+): error( at '(.*)'| at end)?: (.*)$`)
var warnRe = regexp.MustCompile(`^WARNING: line (\d+):(\d+): (.*)$`)

type Diag struct {
	Line, Col int
	AtEnd     bool
	HasTok    bool
	Tok       string
	Msg       string
	Raw       string
}

// ParseDiags splits a log into compile diagnostics; other lines are returned in rest.
func ParseDiags(log string) (diags []Diag, warns []Diag, rest []string) {
	if log == "" {
		return
	}
	lines := strings.Split(strings.TrimSuffix(log, "\n"), "\n")
	for _, ln := range lines {
		if m := diagRe.FindStringSubmatch(ln); m != nil {
			d := Diag{Raw: ln, Msg: m[5]}
			d.Line, _ = strconv.Atoi(m[1])
			d.Col, _ = strconv.Atoi(m[2])
			if m[3] == " at end" {
				d.AtEnd = true
			} else if m[3] != "" {
				d.HasTok = true
				d.Tok = m[4]
			}
			diags = append(diags, d)
		} else if m := warnRe.FindStringSubmatch(ln); m != nil {
			d := Diag{Raw: ln, Msg: m[3]}
			d.Line, _ = strconv.Atoi(m[1])
			d.Col, _ = strconv.Atoi(m[2])
			warns = append(warns, d)
		} else {
			rest = append(rest, ln)
		}
	}
	return
}

func posString(src []byte, off int) string {
	l, c := lang.LineCol(src, off)
	return fmt.Sprintf("%d:%d", l, c)
}

func valueEq(ref any, got any) bool {
	switch x := ref.(type) {
	case float64:
		y, ok := got.(float64)
		if !ok {
			return false
		}
		if x != x {
			return y != y
		}
		return math.Float64bits(x) == math.Float64bits(y)
	case *lang.RBlock:
		y, ok := got.(bcl.Block)
		return ok && blockEq(x, y) == ""
	case nil:
		return got == nil
	case int:
		y, ok := got.(int)
		return ok && x == y
	case string:
		y, ok := got.(string)
		return ok && x == y
	case bool:
		y, ok := got.(bool)
		return ok && x == y
	}
	return false
}

// blockEq compares a reference block with a library block; "" if equal.
func blockEq(ref *lang.RBlock, got bcl.Block) string {
	if ref.Type != got.Type || ref.Name != got.Name {
		return fmt.Sprintf("block %q %q, expected %q %q", got.Type, got.Name, ref.Type, ref.Name)
	}
	if got.Fields == nil && len(ref.Fields) > 0 {
		return "Fields is nil"
	}
	for k, v := range ref.Fields {
		gv, ok := got.Fields[k]
		if !ok {
			return fmt.Sprintf("block %s: field %q missing", ref.Key(), k)
		}
		if !valueEq(v, gv) {
			if rb, isB := v.(*lang.RBlock); isB {
				if gb, ok := gv.(bcl.Block); ok {
					return blockEq(rb, gb)
				}
			}
			return fmt.Sprintf("block %s: field %q = %#v (%T), expected %#v (%T)", ref.Key(), k, gv, gv, v, v)
		}
	}
	for k := range got.Fields {
		if _, ok := ref.Fields[k]; !ok {
			return fmt.Sprintf("block %s: unexpected field %q = %#v", ref.Key(), k, got.Fields[k])
		}
	}
	return ""
}

func blocksEq(ref []*lang.RBlock, got []bcl.Block) string {
	if len(ref) != len(got) {
		return fmt.Sprintf("%d blocks returned, expected %d", len(got), len(ref))
	}
	for i := range ref {
		if d := blockEq(ref[i], got[i]); d != "" {
			return fmt.Sprintf("block #%d: %s", i, d)
		}
	}
	return ""
}

func bindingEq(ref *lang.RBinding, got bcl.Binding) string {
	if ref == nil {
		if got != nil {
			return fmt.Sprintf("binding %#v, expected none", got)
		}
		return ""
	}
	switch b := got.(type) {
	case nil:
		return "binding is nil, expected one"
	case bcl.StructBinding:
		if ref.Slice {
			return "struct binding, expected slice binding"
		}
		if len(ref.Blocks) != 1 {
			return "reference struct binding without exactly one block"
		}
		return blockEq(ref.Blocks[0], b.Value)
	case bcl.SliceBinding:
		if !ref.Slice {
			return "slice binding, expected struct binding"
		}
		return blocksEq(ref.Blocks, b.Value)
	}
	return fmt.Sprintf("unknown binding type %T", got)
}

// Case bundles a program in all its views.
type Case struct {
	Toks    []lang.Tok
	Laid    *lang.Laid
	Prog    *lang.Program
	Verdict lang.Verdict
	Oc      *lang.Outcome
}

// Mismatch describes a disagreement between reference and implementation.
type Mismatch struct {
	Sig, What string
}

// CompareInterpret checks an Interpret result against the reference
// prediction for a program (token view + layout). Returns nil when they agree
// or the program is in an unspecified zone (reported through unspec).
func CompareInterpret(cs *Case, r ImplResult) (m *Mismatch, unspec bool) {
	src := cs.Laid.Src
	if cs.Verdict.Kind == lang.Gray || (cs.Oc != nil && cs.Oc.Unspecified != "") {
		// unspecified zone (DESIGN §5.3): no verdict here; crashes there belong to C06
		return nil, true
	}
	if r.Panic != "" {
		return &Mismatch{panicSig(r.Panic, r.Stack), "panic: " + r.Panic + "\n" + core.Trunc(r.Stack, 1500)}, false
	}
	diags, warns, rest := ParseDiags(r.Log)
	switch cs.Verdict.Kind {
	case lang.Gray:
		return nil, true
	case lang.Reject:
		if r.Err == nil {
			return &Mismatch{"accepts-underivable", "program is not derivable (" + cs.Verdict.Why + ") but Interpret returned no error"}, false
		}
		if r.Blocks != nil || r.Binding != nil {
			return &Mismatch{"results-with-compile-error", "Interpret returned results together with a compile error"}, false
		}
		if r.Out != "" {
			return &Mismatch{"executed-despite-compile-error", fmt.Sprintf("program output %q although compilation failed", r.Out)}, false
		}
		if len(diags) == 0 {
			return &Mismatch{"no-diagnostic", fmt.Sprintf("rejected without a 'line L:C: error' diagnostic; log=%q err=%v", r.Log, r.Err)}, false
		}
		if mm := checkFirstDiag(cs, diags[0]); mm != nil {
			return mm, false
		}
		return nil, false
	}
	// accepted by the reference
	oc := cs.Oc
	if len(diags) > 0 || (r.Err != nil && !strings.HasPrefix(r.Err.Error(), "runtime error")) {
		return &Mismatch{"rejects-derivable", fmt.Sprintf("derivable program rejected: err=%v log=%q", r.Err, r.Log)}, false
	}
	if oc.Unspecified != "" {
		return nil, true
	}
	if len(rest) > 0 {
		return &Mismatch{"stray-log", fmt.Sprintf("unexpected log lines %q", rest)}, false
	}
	if r.Out != oc.Output {
		return &Mismatch{"output", fmt.Sprintf("printed %q, expected %q", r.Out, oc.Output)}, false
	}
	if oc.Err == nil {
		if r.Err != nil {
			return &Mismatch{"unexpected-runtime-error", fmt.Sprintf("unexpected error %v", r.Err)}, false
		}
	} else {
		if r.Err == nil {
			return &Mismatch{"missing-runtime-error", fmt.Sprintf("no error, expected runtime error %s", oc.Err.Class)}, false
		}
		class, pos, ok := lang.ClassOfRuntimeError(r.Err.Error())
		if !ok {
			return &Mismatch{"runtime-error-form", fmt.Sprintf("error %q is not of the form 'runtime error: line L:C: ...'", r.Err)}, false
		}
		if class != oc.Err.Class {
			return &Mismatch{"runtime-error-class", fmt.Sprintf("error %q, expected class %s", r.Err, oc.Err.Class)}, false
		}
		if want := posString(src, cs.Laid.End[oc.Err.Tok]); pos != want {
			return &Mismatch{"runtime-error-position", fmt.Sprintf("error %q at %s, expected %s", r.Err, pos, want)}, false
		}
	}
	if d := blocksEq(oc.Blocks, r.Blocks); d != "" {
		return &Mismatch{"blocks", d}, false
	}
	if d := bindingEq(oc.Binding, r.Binding); d != "" {
		return &Mismatch{"binding", d}, false
	}
	if len(warns) != len(oc.Warnings) {
		return &Mismatch{"warnings", fmt.Sprintf("%d warnings, expected %d; log=%q", len(warns), len(oc.Warnings), r.Log)}, false
	}
	for i, w := range warns {
		want := posString(src, cs.Laid.End[oc.Warnings[i].Tok])
		if got := fmt.Sprintf("%d:%d", w.Line, w.Col); got != want {
			return &Mismatch{"warning-position", fmt.Sprintf("warning %q at %s, expected %s", w.Raw, got, want)}, false
		}
	}
	return nil, false
}

// checkFirstDiag verifies the position of the first diagnostic of a rejected program.
func checkFirstDiag(cs *Case, d Diag) *Mismatch {
	src := cs.Laid.Src
	at := cs.Verdict.At
	got := fmt.Sprintf("%d:%d", d.Line, d.Col)
	var wants []string
	switch {
	case at >= len(cs.Toks):
		wants = append(wants, posString(src, len(src)))
	case cs.Toks[at].Kind == lang.TBad:
		wants = append(wants, posString(src, cs.Laid.Start[at]+cs.Toks[at].FailAt))
	default:
		wants = append(wants, posString(src, cs.Laid.End[at]))
		// the lexer runs one token ahead of the parser: a lexical failure in
		// the next token may be reported before the syntax error
		if at+1 < len(cs.Toks) && cs.Toks[at+1].Kind == lang.TBad {
			wants = append(wants, posString(src, cs.Laid.Start[at+1]+cs.Toks[at+1].FailAt))
		}
	}
	for _, w := range wants {
		if got == w {
			return nil
		}
	}
	return &Mismatch{"first-diagnostic-position", fmt.Sprintf("first diagnostic %q at %s, expected %v (first non-viable token #%d, %s)", d.Raw, got, wants, at, cs.Verdict.Why)}
}

// BuildCase turns a generated AST into all views with the reference prediction.
// It returns an error string when the generator and the reference parser
// disagree about the structure (an internal fault of the harness, not of bcl).
func BuildCase(p *lang.Program, lo lang.LayoutOpts, c *core.Ctx, i int64) (*Case, string) {
	toks := lang.Flatten(p)
	return BuildCaseToks(toks, p, lo, c, i)
}

func BuildCaseToks(toks []lang.Tok, orig *lang.Program, lo lang.LayoutOpts, c *core.Ctx, i int64) (*Case, string) {
	cs := &Case{Toks: toks}
	cs.Prog, cs.Verdict = lang.Parse(toks)
	if orig != nil && cs.Verdict.Kind == lang.Accept {
		if a, b := orig.Shape(), cs.Prog.Shape(); a != b {
			return nil, fmt.Sprintf("renderer/parser disagree:\n gen: %s\n ref: %s", a, b)
		}
	}
	if cs.Verdict.Kind == lang.Accept {
		cs.Oc = lang.Run(cs.Prog)
	}
	r := c.Rand(i ^ 0x5bd1e995)
	cs.Laid = lang.Layout(toks, lo, r)
	return cs, ""
}

func sortedKeys(m map[string]bool) []string {
	var ks []string
	for k := range m {
		ks = append(ks, k)
	}
	sort.Strings(ks)
	return ks
}

// sampleOf renders a case for the evidence file.
func sampleOf(cs *Case, r ImplResult) map[string]any {
	m := map[string]any{"source": core.Trunc(string(cs.Laid.Src), 400), "verdict": cs.Verdict.Kind.String()}
	if cs.Oc != nil {
		m["expected_output"] = core.Trunc(cs.Oc.Output, 200)
		if cs.Oc.Err != nil {
			m["expected_error"] = cs.Oc.Err.Class
		}
		if cs.Oc.Unspecified != "" {
			m["unspecified"] = cs.Oc.Unspecified
		}
	}
	if r.Err != nil {
		m["impl_error"] = r.Err.Error()
	}
	return m
}

func detailOf(cs *Case, r ImplResult) map[string]any {
	d := map[string]any{"source": string(cs.Laid.Src), "source_q": fmt.Sprintf("%q", cs.Laid.Src), "impl_output": r.Out, "impl_log": r.Log}
	if r.Err != nil {
		d["impl_error"] = r.Err.Error()
	}
	if cs.Oc != nil {
		d["expected_output"] = cs.Oc.Output
		if cs.Oc.Err != nil {
			d["expected_error_class"] = cs.Oc.Err.Class
		}
	}
	d["ref_verdict"] = fmt.Sprintf("%s at token %d (%s)", cs.Verdict.Kind, cs.Verdict.At, cs.Verdict.Why)
	return d
}

// ---- calls made earlier in the same process

type earlierTarget struct {
	Name                                  string
	A, B, C, D, E, F, G, H, I, J, K, L, M int
	Sub                                   struct{ A, B, C, D, E, F, G, H, I, J int }
}

var earlierCalls int64

// EarlierCall makes one library call of another kind in front of the call under observation (a failed
// parse of a long input, a long successful run, a file parse cut off by a read error, a runtime error deep in
// nested blocks, an Unmarshal of wide blocks that succeeds or fails, a truncated load, a failed Dump, a run with all
// introspection options on, a Bind of a hand-built binding into a target that does not fit): whatever
// the library keeps from one call to the next must not show in the next call. Which one is made is
// determined by the key (normally the input of the observed call), so a case replays the same way.
func EarlierCall(key uint64) {
	earlierCalls++
	lines := 70 + int(key>>8)%260
	var b strings.Builder
	switch key % 10 {
	case 8: // a run with disassembly, trace and statistics on (tables built on first use), ending in a runtime error
		b.WriteString("var a = 1\ndef t \"n\" { x = a + 2 * 3; y = not x or \"s\"; def in { z = 1.5 } }\nbind t -> struct\nbind t:all -> slice\n")
		for k := 0; k < lines/8; k++ {
			fmt.Fprintf(&b, "print %d < %d and %d.5 >= 2 or nil\n", k, k+1, k)
		}
		b.WriteString("print 1 - \"s\"\n")
		protect(func() {
			bcl.Interpret([]byte(b.String()), bcl.OptLogger(io.Discard), bcl.OptOutput(io.Discard), bcl.OptDisasm(true), bcl.OptTrace(true), bcl.OptStats(true))
		})
	case 9: // Bind of a hand-built binding: wide blocks with values the VM never produces, into a target that does not fit
		blk := bcl.Block{Type: "earlier_target", Name: "n", Fields: map[string]any{}}
		for k := 0; k < 12+int(key>>8)%20; k++ {
			blk.Fields[fmt.Sprintf("%c", 'a'+k%13)+strings.Repeat("_", k/13)] = []any{k, int64(k), "s", nil, 1.5, []int{k}}[k%6]
		}
		blk.Fields["sub"] = bcl.Block{Type: "sub", Fields: map[string]any{"a": 1, "zz": true}}
		var t earlierTarget
		var ts []earlierTarget
		protect(func() { bcl.Bind(&t, bcl.StructBinding{Value: blk}) })
		protect(func() { bcl.Bind(&ts, bcl.SliceBinding{Value: []bcl.Block{blk, blk}}) })
	case 0: // a failed parse of a long input (errors at both ends)
		b.WriteString("print )\n")
		for k := 0; k < lines; k++ {
			fmt.Fprintf(&b, "var v%d = %d # filler\n", k, k)
		}
		b.WriteString("var v0 = 1\nprint (\n")
		protect(func() { bcl.Parse([]byte(b.String()), "earlier", bcl.OptLogger(io.Discard), bcl.OptOutput(io.Discard)) })
	case 1: // a long successful run
		for k := 0; k < lines; k++ {
			fmt.Fprintf(&b, "def t%d \"n%d\" { f%d = %d; s = \"v%d\" + %d }\n", k%3, k, k, k, k, k)
		}
		b.WriteString("bind t1:all -> slice\n")
		protect(func() { bcl.Interpret([]byte(b.String()), bcl.OptLogger(io.Discard), bcl.OptOutput(io.Discard)) })
	case 2: // a file parse of a long failing input, cut off by a read error
		for k := 0; k < lines; k++ {
			fmt.Fprintf(&b, "print %d +\n", k)
		}
		sc := mon.NewScript("earlier.bcl", []byte(b.String()), []mon.Step{{N: 100}, {N: 1000}, {N: 50, Err: mon.ErrInjected}})
		protect(func() { bcl.ParseFile(sc, bcl.OptLogger(&mon.LockedWriter{}), bcl.OptOutput(&mon.LockedWriter{})) })
		mon.WaitQuiescent(14)
	case 3: // a runtime error deep in nested blocks, locals alive
		b.WriteString("var a = 1\n")
		depth := 2 + int(key>>8)%13
		for k := 0; k < depth; k++ {
			fmt.Fprintf(&b, "def d%d { var l%d = %d\n x%d = l%d\n", k, k, k, k, k)
		}
		b.WriteString("y = 1 / 0\n" + strings.Repeat("}\n", depth))
		protect(func() { bcl.Interpret([]byte(b.String()), bcl.OptLogger(io.Discard), bcl.OptOutput(io.Discard)) })
	case 4, 5: // Unmarshal of wide blocks, succeeding (4) or failing at the last field (5)
		b.WriteString("def earlier_target \"n\" { a=1; b=2; c=3; d=4; e=5; f=6; g=7; h=8; i=9; j=10; k=11; l=12\n def sub { a=1; b=2; c=3; d=4; e=5; f=6; g=7; h=8; i=9; j=10 }\n")
		if key%10 == 5 {
			b.WriteString("m = \"not an int\" ")
		}
		b.WriteString("}\nbind earlier_target -> struct\n")
		var t earlierTarget
		protect(func() { bcl.Unmarshal([]byte(b.String()), &t, bcl.OptLogger(io.Discard), bcl.OptOutput(io.Discard)) })
	case 6, 7: // a dump cut short loaded (6); a Dump into a writer that fails (7)
		for k := 0; k < lines; k++ {
			fmt.Fprintf(&b, "print \"%s\" + %d\n", strings.Repeat("s", k%120), k)
		}
		var p *bcl.Prog
		protect(func() {
			p, _ = bcl.Parse([]byte(b.String()), "earlier", bcl.OptLogger(io.Discard), bcl.OptOutput(io.Discard))
		})
		if p == nil {
			return
		}
		if key%10 == 7 {
			protect(func() { p.Dump(&failingWriter{limit: 40 + int(key>>8)%400}) })
			return
		}
		var d bytes.Buffer
		protect(func() { p.Dump(&d) })
		if d.Len() > 10 {
			cut := 5 + int(key>>8)%(d.Len()-5)
			protect(func() {
				bcl.LoadProg(bytes.NewReader(d.Bytes()[:cut]), "earlier", bcl.OptLogger(io.Discard), bcl.OptOutput(io.Discard))
			})
		}
	}
}
