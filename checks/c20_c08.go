package checks

import (
	"bytes"
	"fmt"
	"io"
	"math/rand"
	"regexp"
	"strings"

	"github.com/wkhere/bcl"

	"verif/internal/bc"
	"verif/internal/core"
	"verif/internal/lang"
	"verif/internal/mon"
)

func hostileLayout(r *rand.Rand) lang.LayoutOpts {
	return lang.LayoutOpts{Hostile: true, Newlines: r.Intn(5) > 0, Comments: r.Intn(4) > 0, MultiByteWS: r.Intn(2) == 0, RawBytes: r.Intn(3) == 0,
		TouchProb: []int{0, 20, 60, 100}[r.Intn(4)], LeadTrail: r.Intn(3) > 0}
}

var posRe = regexp.MustCompile(`line \d+:\d+: `)

func stripPos(s string) string { return posRe.ReplaceAllString(s, "line L:C: ") }

// ---- AST variation: optional ';' and redundant parentheses

func cloneExpr(e *lang.Expr) *lang.Expr {
	if e == nil {
		return nil
	}
	c := *e
	c.L, c.R = cloneExpr(e.L), cloneExpr(e.R)
	return &c
}

func cloneStmt(s *lang.Stmt) *lang.Stmt {
	c := *s
	c.E = cloneExpr(s.E)
	c.Body = nil
	for _, b := range s.Body {
		c.Body = append(c.Body, cloneStmt(b))
	}
	return &c
}

func addParens(e *lang.Expr, r *rand.Rand, pct int) *lang.Expr {
	if e == nil {
		return nil
	}
	e.L = addParens(e.L, r, pct)
	e.R = addParens(e.R, r, pct)
	if r.Intn(100) < pct {
		n := 1
		if r.Intn(8) == 0 {
			n = 2 + r.Intn(3)
		}
		for ; n > 0; n-- {
			e = lang.Paren(e)
		}
	}
	return e
}

func startsWithSign(s *lang.Stmt) bool {
	if s.Kind != lang.SExpr {
		return false
	}
	t := lang.FlattenExpr(s.E)
	return len(t) > 0 && (t[0].Text == "-" || t[0].Text == "+" || t[0].Text == "(")
}

func varyStmts(ss []*lang.Stmt, r *rand.Rand, parenPct int) []*lang.Stmt {
	var out []*lang.Stmt
	for _, s := range ss {
		c := cloneStmt(s)
		c.E = addParens(c.E, r, parenPct)
		c.Body = varyStmts(c.Body, r, parenPct)
		out = append(out, c)
	}
	for i, c := range out {
		switch r.Intn(3) {
		case 0:
			c.Semi = true
		case 1:
			// the ';' may be dropped unless the next statement could continue this one
			if i+1 < len(out) && startsWithSign(out[i+1]) {
				c.Semi = true
			} else {
				c.Semi = false
			}
		}
		// a bare expression now starting with '(' after a statement without ';' would read as a call-less continuation only for '+'/'-': '(' cannot continue an expression, so it is safe
	}
	return out
}

// dropNotParens removes one pair of parentheses that encloses a 'not' expression standing as the
// operand of a sign or the right operand of a binary operator ("1 + (not x)" -> "1 + not x"). The
// implementation takes a prefix 'not' wherever an operand may start, so the shorter text is a
// rendering of the same program whenever it groups the same way; that is decided by the harness's
// own parser (same shape with and without the pair), otherwise ok=false.
func dropNotParens(toks []lang.Tok, r *rand.Rand) (out []lang.Tok, ok bool) {
	isOp := func(t lang.Tok) bool {
		if t.Kind != lang.TPunct {
			return false
		}
		switch t.Text {
		case "+", "-", "*", "/", "<", "<=", ">", ">=", "==", "!=":
			return true
		}
		return false
	}
	var cands [][2]int
	for i := 1; i+1 < len(toks); i++ {
		if toks[i].Kind == lang.TPunct && toks[i].Text == "(" && toks[i+1].Kind == lang.TWord && toks[i+1].Text == "not" && isOp(toks[i-1]) {
			depth := 0
			for j := i; j < len(toks); j++ {
				if toks[j].Kind == lang.TPunct && toks[j].Text == "(" {
					depth++
				} else if toks[j].Kind == lang.TPunct && toks[j].Text == ")" {
					depth--
					if depth == 0 {
						cands = append(cands, [2]int{i, j})
						break
					}
				}
			}
		}
	}
	if len(cands) == 0 {
		return nil, false
	}
	pa, va := lang.Parse(toks)
	if va.Kind == lang.Reject {
		return nil, false
	}
	cd := cands[r.Intn(len(cands))]
	for k, t := range toks {
		if k != cd[0] && k != cd[1] {
			out = append(out, t)
		}
	}
	pb, vb := lang.Parse(out)
	if vb.Kind == lang.Reject || pa.Shape() != pb.Shape() {
		return nil, false
	}
	return out, true
}

// c20NotPairs: a prefix 'not' directly after a sign or a binary operator, with and without the
// parentheses around it.
func c20NotPairs() (pairs [][2]string) {
	heads := []string{"+", "-", "+ -", "- +", "- -", "1 +", "1 -", "2 *", "8 /", "1 <", "1 <=", "1 >", "1 >=", "1 ==", "1 !=", "\"a\" +", "\"a\" *", "x +", "x ==", "nil ==", "true !="}
	nots := []string{"not 5", "not 0", "not not 1", "not x", "not 1 == 2", "not 1 + 2", "not \"\"", "not nil", "not - 1"}
	tails := []string{"", " and 3", " or 0", " and not 0"}
	for _, h := range heads {
		for _, n := range nots {
			for _, t := range tails {
				with := h + " (" + n + ")" + t
				without := h + " " + n + t
				pairs = append(pairs, [2]string{"var x = 2\nprint " + with + "\n", "var x = 2\nprint " + without + "\n"})
				pairs = append(pairs, [2]string{"var x = 2\ndef b { f = " + with + " }\n", "var x = 2\ndef b { f = " + without + " }\n"})
				pairs = append(pairs, [2]string{"var x = 2\nprint (" + with + ") == 1\n", "var x = 2\nprint (" + without + ") == 1\n"})
			}
		}
	}
	return pairs
}

type rendering struct {
	src  []byte
	what string
}

type compiled struct {
	perr    bool
	code    []byte
	consts  []any
	log     string
	res     ImplResult
	pan     string
	panWhat string
}

func compileAndRun(src []byte) compiled {
	var cp compiled
	var lg, out bytes.Buffer
	var p *bcl.Prog
	var err error
	pan, stack := protect(func() { p, err = bcl.Parse(src, "in", bcl.OptLogger(&lg), bcl.OptOutput(&out)) })
	if pan != "" {
		cp.pan, cp.panWhat = panicSig(pan, stack), pan
		return cp
	}
	cp.log = lg.String()
	if err != nil {
		cp.perr = true
	} else {
		vp := bcl.VerifProgParts(p)
		cp.code, cp.consts = vp.Code, vp.Constants
	}
	cp.res = InterpretReused(src)
	if cp.res.Panic != "" {
		cp.pan, cp.panWhat = panicSig(cp.res.Panic, cp.res.Stack), cp.res.Panic
	}
	return cp
}

func diagClasses(log string) string {
	diags, warns, rest := ParseDiags(log)
	var b strings.Builder
	for _, d := range diags {
		fmt.Fprintf(&b, "E[%v|%s|%s]", d.AtEnd, d.Tok, d.Msg)
	}
	for _, w := range warns {
		fmt.Fprintf(&b, "W[%s]", w.Msg)
	}
	for _, x := range rest {
		b.WriteString("?[" + x + "]")
	}
	return b.String()
}

func diffCompiled(a, b compiled) string {
	if a.perr != b.perr {
		return fmt.Sprintf("one rendering is rejected (%v), the other not (%v): %q vs %q", a.perr, b.perr, a.log, b.log)
	}
	if da, db := diagClasses(a.log), diagClasses(b.log); da != db {
		return fmt.Sprintf("diagnostics differ: %s vs %s", da, db)
	}
	if !a.perr {
		if !bytes.Equal(a.code, b.code) {
			return fmt.Sprintf("instructions differ: % x vs % x", a.code, b.code)
		}
		if len(a.consts) != len(b.consts) {
			return fmt.Sprintf("%d constants vs %d", len(a.consts), len(b.consts))
		}
		for i := range a.consts {
			if !bc.EqualConst(a.consts[i], b.consts[i]) {
				return fmt.Sprintf("constant %d: %#v vs %#v", i, a.consts[i], b.consts[i])
			}
		}
	}
	ra, rb := a.res, b.res
	switch {
	case ra.Out != rb.Out:
		return "output differs: " + firstDiff(ra.Out, rb.Out)
	case (ra.Err == nil) != (rb.Err == nil):
		return fmt.Sprintf("error %v vs %v", ra.Err, rb.Err)
	case ra.Err != nil && stripPos(ra.Err.Error()) != stripPos(rb.Err.Error()):
		return fmt.Sprintf("error %v vs %v", ra.Err, rb.Err)
	case diagClasses(ra.Log) != diagClasses(rb.Log):
		return fmt.Sprintf("log differs: %q vs %q", ra.Log, rb.Log)
	case !deepBlocksEq(ra.Blocks, rb.Blocks):
		return "blocks differ"
	case !deepBindingEq(ra.Binding, rb.Binding):
		return "binding differs"
	}
	return ""
}

func init() {
	core.Register(&core.Check{
		ID:    "C20",
		Level: "exploration",
		Rule: "metamorphic monitor (layout A vs layout B): each program gets a canonical rendering and k hostile ones: every separator kind (SP TAB VT FF CR LF CRLF U+0085 U+00A0, none where tokens may touch), comments with quotes/keywords/#/non-ASCII/raw bytes/NUL ended by CR, LF or end of input, ';' added after any statement and dropped where the next one cannot continue it, redundant parentheses around arbitrary sub-expressions. " +
			"Compared with the canonical rendering: code and constants (from the program's parts), output, blocks, binding, error and diagnostic classes (positions excluded). Rejected programs (token-damaged) get whitespace/comment variation only. String literals with '#', ';', parentheses and every whitespace kind inside must reach the value byte for byte. " +
			"distinct = hash of rendering; non-trivial = rendering differs from the canonical one and the pair was compared Also: every rendering is parsed through ParseFile in 1-3 random chunks and must compile to the same code; value-less literals and block names are generated and a rejected program must stay rejected under parenthesis / ';' variation; 70000-byte comments and whitespace runs and 17 MiB of comment lines / 18 MiB of blanks between two statements, 80 kB runs of two-byte blanks at even and odd offsets (whole, through 4096-byte pages, and dumped and loaded), 100..4000 redundant parentheses; parentheses dropped around a 'not' operand that follows a sign or a binary operator wherever the harness's parser groups both texts alike (2268 fixed pairs and the generated programs).",
		Assumptions:   []string{"whole-input Parse (chunking is C07's matter)", "the independent separator-needed predicate decides where tokens may touch"},
		MinNontrivial: 1000,
		Run: func(c *core.Ctx) {
			n := int64(c.Pick(25000, 500000))
			k := c.Pick(6, 10)
			for i := int64(0); i < n; i++ {
				if !c.Mine(i) {
					continue
				}
				c.Idle()
				r := c.Rand(i)
				cfg := randProfile(r)
				cfg.CompileErrPct = 5
				cfg.BadLitPct = 2
				g := lang.NewGen(r, cfg)
				p := g.Program()
				toks := lang.Flatten(p)
				damaged := false
				if i%5 == 4 && len(toks) > 0 {
					// a rejected program: one token edit
					pos := r.Intn(len(toks))
					nt := c17Vocab[r.Intn(len(c17Words))]
					switch r.Intn(3) {
					case 0:
						toks = append(append([]lang.Tok{}, toks[:pos]...), toks[pos+1:]...)
					case 1:
						toks = append(append(append([]lang.Tok{}, toks[:pos]...), nt), toks[pos:]...)
					default:
						toks = append([]lang.Tok{}, toks...)
						toks[pos] = nt
					}
					damaged = true
				}
				canon := lang.Layout(toks, lang.LayoutOpts{}, r).Src
				if !vetMemory(canon) {
					continue
				}
				c.Begin(i)
				c.NoteInput("canon", canon)
				base := compileAndRun(canon)
				c.Eval(1)
				if base.pan != "" {
					c.Violation(base.pan, "panic on the canonical rendering: "+base.panWhat, map[string]any{"source": string(canon)})
					continue
				}
				var rs []rendering
				for j := 0; j < k; j++ {
					if damaged || j%2 == 0 {
						rs = append(rs, rendering{lang.Layout(toks, hostileLayout(r), r).Src, "layout"})
					} else {
						vp := &lang.Program{Stmts: varyStmts(p.Stmts, r, []int{5, 15, 40}[r.Intn(3)])}
						vt := lang.Flatten(vp)
						rs = append(rs, rendering{lang.Layout(vt, hostileLayout(r), r).Src, "layout+semicolons+parentheses"})
					}
				}
				if !damaged {
					if vt, ok := dropNotParens(toks, r); ok {
						rs = append(rs, rendering{lang.Layout(vt, hostileLayout(r), r).Src, "parentheses_dropped_before_not"})
					}
				}
				for _, rd := range rs {
					if bytes.Equal(rd.src, canon) {
						continue
					}
					got := compileAndRun(rd.src)
					c.Eval(1)
					if got.pan != "" {
						c.Violation(got.pan, "panic on a re-rendering: "+got.panWhat, map[string]any{"source_q": fmt.Sprintf("%q", rd.src)})
						break
					}
					if base.perr && rd.what != "layout" {
						// a rejected program re-rendered with other parentheses / ';': later diagnostics may
						// quote other tokens, but it must stay rejected
						if !got.perr {
							c.Violation("layout-changes-meaning:rejected-becomes-accepted", "a rejected program is accepted when redundant parentheses or ';' are varied",
								map[string]any{"canonical": string(canon), "rendering": string(rd.src), "canonical_log": base.log})
							break
						}
						c.Count("renderings_of_rejected_programs", 1)
						c.Nontrivial(core.Hash(rd.src))
						continue
					}
					if d := diffCompiled(base, got); d != "" {
						c.Violation("layout-changes-meaning:"+stripDigits(core.Trunc(d, 30)), "two renderings of one program differ ("+rd.what+"): "+d,
							map[string]any{"canonical": string(canon), "rendering": string(rd.src), "rendering_q": fmt.Sprintf("%q", rd.src), "variation": rd.what})
						break
					}
					// the same rendering delivered in chunks: layout must not interact with read boundaries
					if len(rd.src) > 2 {
						var steps []mon.Step
						for k, m := 0, 1+r.Intn(3); k < m; k++ {
							steps = append(steps, mon.Step{N: 1 + r.Intn(len(rd.src)-1)})
						}
						sc := mon.NewScript("in", rd.src, steps)
						var lg2, out2 mon.LockedWriter
						fp, ferr := bcl.ParseFile(sc, bcl.OptLogger(&lg2), bcl.OptOutput(&out2))
						c.Eval(1)
						bad := (ferr != nil) != got.perr
						if !bad && ferr == nil {
							vp := bcl.VerifProgParts(fp)
							bad = !bytes.Equal(vp.Code, got.code) || len(vp.Constants) != len(got.consts)
						}
						if bad {
							c.Violation("layout-changes-meaning:chunked", fmt.Sprintf("a rendering parsed in chunks (reads %s) differs from the same bytes parsed whole", sc.ReadLog()),
								map[string]any{"rendering": string(rd.src), "rendering_q": fmt.Sprintf("%q", rd.src), "reads": sc.ReadLog(), "chunked_log": lg2.String()})
							break
						}
						c.Count("renderings_also_parsed_in_chunks", 1)
					}
					c.Nontrivial(core.Hash(rd.src))
					c.Count("renderings_compared_"+strings.ReplaceAll(rd.what, "+", "_"), 1)
					if base.perr {
						c.Count("renderings_of_rejected_programs", 1)
					}
					if c.WantSample() && len(rd.src) < 250 && len(rd.src) > 40 {
						c.Sample(map[string]any{"canonical": string(canon), "rendering": fmt.Sprintf("%q", rd.src), "variation": rd.what})
					}
				}
			}
			// layout of extreme size: one comment or whitespace run of 70000 bytes between two tokens (streamed through
			// the real 4096-byte pages and as one piece), and hundreds to thousands of redundant parentheses
			for k := int64(0); k < 18; k++ {
				i := n + 1000000 + k
				if !c.Mine(i) {
					continue
				}
				c.Begin(i)
				canon := "var x = 7\nprint x + 2 * 3\ndef b { f = x }\n"
				var variant string
				switch k {
				case 0:
					variant = "var x = 7\n#" + strings.Repeat("c", 70000) + "\nprint x + 2 * 3\ndef b { f = x }\n"
				case 1:
					variant = "var x = 7\nprint x +" + strings.Repeat(" ", 70000) + "2 * 3\ndef b { f = x }\n"
				case 2:
					variant = "var x = 7\nprint x + 2 * 3\ndef b { f = x }\n#" + strings.Repeat("z", 70000)
				case 3:
					variant = "var x = 7\nprint x + 2 * 3\ndef b { f = x }" + strings.Repeat("\t\r\n ", 20000)
				case 4:
					variant = strings.Repeat("\n", 66000) + "var x = 7 print x + 2 * 3 def b { f = x }"
				case 14, 15, 16, 17:
					// more than 64 KiB of two-byte blanks starting at an even / odd offset: the page boundaries fall inside characters
					blank := []string{"\u00a0", "\u0085"}[k%2]
					variant = "var x = 7\nprint x + 2 * 3" + []string{" ", "  "}[(k-14)/2] + strings.Repeat(blank, 40000) + "def b { f = x }\n"
				case 12:
					// layout beyond 16 MiB between two statements
					variant = "var x = 7\nprint x + 2 * 3\n" + strings.Repeat("# ..............................................................\n", (17<<20)/64) + "def b { f = x }\n"
				case 13:
					variant = "var x = 7\nprint x + 2 * 3" + strings.Repeat(" \t", 9<<20) + "def b { f = x }\n"
				default:
					np := []int{100, 1000, 1022, 1023, 1024, 1025, 4000}[k-5]
					variant = "var x = 7\nprint x + " + strings.Repeat("(", np) + "2" + strings.Repeat(")", np) + " * 3\ndef b { f = " + strings.Repeat("(", np) + "x" + strings.Repeat(")", np) + " }\n"
				}
				base := compileAndRun([]byte(canon))
				got := compileAndRun([]byte(variant))
				c.Eval(2)
				if d := diffCompiled(base, got); d != "" || got.pan != "" {
					c.Violation("layout-changes-meaning:extreme-layout", fmt.Sprintf("a rendering with layout of extreme size (variant %d) differs: %s %s", k, d, got.panWhat), map[string]any{"variant": k})
					continue
				}
				sc := mon.NewScript("in", []byte(variant), nil) // real 4096-byte reads
				var lg2, out2 mon.LockedWriter
				fp, ferr := bcl.ParseFile(sc, bcl.OptLogger(&lg2), bcl.OptOutput(&out2))
				c.Eval(1)
				if ferr != nil || !bytes.Equal(bcl.VerifProgParts(fp).Code, base.code) {
					c.Violation("layout-changes-meaning:extreme-layout", fmt.Sprintf("a rendering with layout of extreme size (variant %d) read through 4096-byte pages: err=%v log=%q", k, ferr, core.Trunc(lg2.String(), 300)), map[string]any{"variant": k})
					continue
				}
				// and the program compiled from that rendering survives dump and load
				if d, derr, dpan, _ := dumpOf(fp); derr != nil || dpan != "" {
					c.Violation("layout-changes-meaning:extreme-layout", fmt.Sprintf("a rendering with layout of extreme size (variant %d) cannot be dumped: %v %s", k, derr, dpan), map[string]any{"variant": k})
					continue
				} else {
					var o3, l3 bytes.Buffer
					q, lerr := bcl.LoadProg(bytes.NewReader(d), "in", bcl.OptOutput(&o3), bcl.OptLogger(&l3))
					var xerr error
					if lerr == nil {
						_, _, xerr = bcl.Execute(q)
					}
					c.Eval(1)
					if lerr != nil || xerr != nil || o3.String() != base.res.Out {
						c.Violation("layout-changes-meaning:extreme-layout", fmt.Sprintf("a rendering with layout of extreme size (variant %d), dumped and loaded: load error %v, run error %v, output %q (expected %q)", k, lerr, xerr, core.Trunc(o3.String(), 80), base.res.Out), map[string]any{"variant": k})
						continue
					}
				}
				c.Count("extreme_layout_renderings", 1)
				c.Nontrivial(core.Hash("extreme", k))
			}
			// a prefix 'not' right after a sign or a binary operator, with and without parentheses around it
			for k, pr := range c20NotPairs() {
				i := n + 2000000 + int64(k)
				if !c.Mine(i) {
					continue
				}
				ta, oka := lang.Lex(pr[0])
				tb, okb := lang.Lex(pr[1])
				if !oka || !okb {
					c.Inconclusive("harness: a fixed pair does not lex: " + pr[0])
					continue
				}
				pa, va := lang.Parse(ta)
				pb, vb := lang.Parse(tb)
				if va.Kind == lang.Reject || vb.Kind == lang.Reject || pa.Shape() != pb.Shape() {
					c.Count("not_pairs_grouping_differently_skipped", 1)
					continue
				}
				c.Begin(i)
				c.NoteInput("canon", []byte(pr[0]))
				base := compileAndRun([]byte(pr[0]))
				got := compileAndRun([]byte(pr[1]))
				c.Eval(2)
				if base.pan != "" || got.pan != "" {
					c.Violation(base.pan+got.pan, "panic on a fixed 'not' pair: "+base.panWhat+got.panWhat, map[string]any{"with": pr[0], "without": pr[1]})
					continue
				}
				if d := diffCompiled(base, got); d != "" {
					c.Violation("layout-changes-meaning:"+stripDigits(core.Trunc(d, 30)), "a 'not' operand with and without redundant parentheses differs: "+d,
						map[string]any{"canonical": pr[0], "rendering": pr[1], "variation": "parentheses_dropped_before_not"})
					continue
				}
				c.Count("renderings_compared_parentheses_dropped_before_not", 1)
				c.Nontrivial(core.Hash(pr[1]))
			}
			// string contents are not layout
			base := n
			ns := int64(c.Pick(6000, 100000))
			for kx := int64(0); kx < ns; kx++ {
				i := base + kx
				if !c.Mine(i) {
					continue
				}
				r := c.Rand(i)
				pieces := []string{"#", ";", "(", ")", " ", "\t", "\v", "\f", "\r", "\u0085", "\u00a0", "# c", "; ;", "((", "{", "}", "x", "é", "'", "=", "print 1", "//", "/*"}
				var sb strings.Builder
				for j, m := 0, 1+r.Intn(6); j < m; j++ {
					sb.WriteString(pieces[r.Intn(len(pieces))])
				}
				val := sb.String()
				lit := `"` + val + `"` // raw between the quotes: none of the pieces needs an escape
				toks := []lang.Tok{lang.W("print"), {Kind: lang.TStr, Text: lit}, lang.W("def"), lang.W("b"), lang.P("{"), lang.W("f"), lang.P("="), {Kind: lang.TStr, Text: lit}, lang.P("}")}
				src := lang.Layout(toks, hostileLayout(r), r).Src
				c.Begin(i)
				res := InterpretReused(src)
				c.Eval(1)
				ok := res.Panic == "" && res.Err == nil && res.Out == val+"\n" && len(res.Blocks) == 1 && res.Blocks[0].Fields["f"] == val
				if !ok {
					c.Violation("string-content-treated-as-layout", fmt.Sprintf("string literal %q did not reach the value byte for byte: output %q, blocks %v, err %v %s", val, res.Out, res.Blocks, res.Err, res.Panic),
						map[string]any{"source_q": fmt.Sprintf("%q", src)})
					continue
				}
				c.Count("string_literals_with_layout_characters", 1)
				c.Nontrivial(core.Hash(src))
			}
		},
	})
}

// ---------------------------------------------------------------- C08

// decodeDiag checks one compile diagnostic against the source by decoding its
// line:column with the harness's own newline index.
func decodeDiag(src []byte, d Diag, lexical bool) string {
	off := lang.OffsetOf(src, d.Line, d.Col)
	if off < 0 {
		return fmt.Sprintf("%d:%d designates no byte offset of the source (%d bytes)", d.Line, d.Col, len(src))
	}
	if l, cc := lang.LineCol(src, off); l != d.Line || cc != d.Col {
		return fmt.Sprintf("%d:%d is not the canonical position of offset %d (%d:%d)", d.Line, d.Col, off, l, cc)
	}
	if d.AtEnd && off != len(src) {
		return fmt.Sprintf("'at end' at offset %d, the source has %d bytes", off, len(src))
	}
	if d.HasTok {
		n := len(d.Tok)
		if off-n < 0 || string(src[off-n:off]) != d.Tok {
			lo := max(0, off-n)
			return fmt.Sprintf("quoted token %q does not end at offset %d (source there: %q)", d.Tok, off, src[lo:off])
		}
	}
	return ""
}

func c08Pad(r *rand.Rand, class int) []byte {
	sizes := []int{0, 0, 250, 2300, 4100, 8200, 68000}
	n := sizes[class%len(sizes)]
	var b bytes.Buffer
	for b.Len() < n {
		switch r.Intn(4) {
		case 0:
			b.WriteString("# padding é漢 ........................................\n")
		case 1:
			b.WriteString("\r\n   \t\n")
		case 2:
			b.WriteString("#\u0085 not a newline\r# cr only\n")
		default:
			b.WriteString("                                        ")
		}
	}
	return b.Bytes()
}

func c08Case(c *core.Ctx, i int64, toks []lang.Tok, orig *lang.Program, r *rand.Rand, padClass int) {
	lo := hostileLayout(r)
	lo.Newlines = true
	cs, bad := BuildCaseToks(toks, orig, lo, c, i)
	if bad != "" {
		c.Inconclusive("harness: " + bad)
		return
	}
	// pad in front so that offsets cross the read page and the varint classes
	pad := c08Pad(r, padClass)
	if len(pad) > 0 {
		cs.Laid.Src = append(append([]byte{}, pad...), cs.Laid.Src...)
		for k := range cs.Laid.Start {
			cs.Laid.Start[k] += len(pad)
			cs.Laid.End[k] += len(pad)
		}
	}
	src := cs.Laid.Src
	if cs.Oc != nil && cs.Oc.TooLarge {
		return
	}
	c.NoteInput("src", src)
	det := func(extra string) map[string]any {
		return map[string]any{"source": core.Trunc(string(src[len(pad):]), 2000), "source_q": core.Trunc(fmt.Sprintf("%q", src[len(pad):]), 4000), "padding_bytes": len(pad), "note": extra}
	}
	// whole-input parse: program parts and diagnostics
	var lg, out bytes.Buffer
	prog, perr := bcl.Parse(src, "in", bcl.OptLogger(&lg), bcl.OptOutput(&out))
	c.Eval(1)
	decoded := 0
	diags, _, _ := ParseDiags(lg.String())
	for k, d := range diags {
		lex := strings.Contains(d.Raw, "error: ") && !d.HasTok && !d.AtEnd
		if why := decodeDiag(src, d, lex); why != "" {
			c.Violation("diagnostic-decode", fmt.Sprintf("diagnostic #%d %q: %s", k, d.Raw, why), det(""))
			return
		}
		decoded++
	}
	if perr == nil {
		vp := bcl.VerifProgParts(prog)
		// line table = set of LF offsets
		var lfs []int
		for k, b := range src {
			if b == '\n' {
				lfs = append(lfs, k)
			}
		}
		if fmt.Sprint(lfs) != fmt.Sprint(vp.LineFeeds) {
			c.Violation("line-table", fmt.Sprintf("line table has %d entries, the source has %d newlines (first difference: %s)", len(vp.LineFeeds), len(lfs), firstDiff(fmt.Sprint(vp.LineFeeds), fmt.Sprint(lfs))), det(""))
			return
		}
		if len(vp.Positions) != len(vp.Code) {
			c.Violation("positions-length", fmt.Sprintf("%d positions for %d code bytes", len(vp.Positions), len(vp.Code)), det(""))
			return
		}
		ends := map[int]bool{}
		for _, e := range cs.Laid.End {
			ends[e] = true
		}
		for k, pos := range vp.Positions {
			if !ends[pos] && !(k == len(vp.Positions)-1 || pos == len(src)) {
				c.Violation("position-not-a-token-end", fmt.Sprintf("code byte %d carries source position %d, which is not the end of a token", k, pos), det(""))
				return
			}
		}
		c.Count("line_tables_compared", 1)
		c.Max("max_source_offset", int64(len(src)))
	}
	// prediction check through the reference model (positions only)
	res := InterpretReused(src)
	c.Eval(1)
	mm, unspec := CompareInterpret(cs, res)
	if unspec {
		c.Unspecified()
	}
	if mm != nil {
		switch mm.Sig {
		case "first-diagnostic-position", "runtime-error-position", "warning-position":
			c.Violation(mm.Sig, mm.What, detailOf(cs, res))
			return
		default:
			c.Count("mismatches_outside_this_property", 1)
		}
	}
	if res.Err != nil && !unspec {
		if cs.Oc != nil && cs.Oc.Err != nil {
			c.Count("runtime_error_positions_predicted", 1)
			decoded++
		} else if cs.Verdict.Kind == lang.Reject {
			c.Count("compile_error_positions_predicted", 1)
		}
	}
	if cs.Oc != nil {
		c.Count("warning_positions_predicted", int64(len(cs.Oc.Warnings)))
		decoded += len(cs.Oc.Warnings)
	}
	// the same under chunked parsing and after dump -> load
	if i%3 == 0 {
		var steps []mon.Step
		for k := 0; k < 6; k++ {
			steps = append(steps, mon.Step{N: 1 + r.Intn(1+r.Intn(200))})
		}
		sc := mon.NewScript("in", src, steps)
		var lg2, out2 bytes.Buffer
		fp, ferr := bcl.ParseFile(sc, bcl.OptLogger(&lg2), bcl.OptOutput(&out2))
		c.Eval(1)
		if lg2.String() != lg.String() || (ferr != nil) != (perr != nil) {
			c.Violation("positions-depend-on-chunking", fmt.Sprintf("diagnostics differ under chunked parsing (reads %s): %q vs %q", sc.ReadLog(), lg2.String(), lg.String()), det("reads: "+sc.ReadLog()))
			return
		}
		if ferr == nil && perr == nil {
			a, b := bcl.VerifProgParts(fp), bcl.VerifProgParts(prog)
			if fmt.Sprint(a.Positions) != fmt.Sprint(b.Positions) || fmt.Sprint(a.LineFeeds) != fmt.Sprint(b.LineFeeds) {
				c.Violation("positions-depend-on-chunking", "positions or line table differ under chunked parsing (reads "+sc.ReadLog()+")", det("reads: "+sc.ReadLog()))
				return
			}
			c.Count("chunked_parses_compared", 1)
		}
	}
	// positions do not depend on where the diagnostics go: the same program compiled with io.Discard (or a func
	// adapter) as log and output writer carries the same positions and line table, and fails at the same place
	if perr == nil && i%3 == 1 {
		var wl, wo io.Writer = io.Discard, io.Discard
		if i%2 == 0 {
			wl, wo = writerFunc(func(p []byte) (int, error) { return len(p), nil }), io.Discard
		}
		qp, qerr := bcl.Parse(src, "in", bcl.OptLogger(wl), bcl.OptOutput(wo))
		c.Eval(1)
		if qerr != nil {
			c.Violation("positions-depend-on-the-log-writer", fmt.Sprintf("the program is rejected (%v) when the log writer is %T", qerr, wl), det(""))
			return
		}
		a, b := bcl.VerifProgParts(qp), bcl.VerifProgParts(prog)
		if fmt.Sprint(a.Positions) != fmt.Sprint(b.Positions) || fmt.Sprint(a.LineFeeds) != fmt.Sprint(b.LineFeeds) {
			c.Violation("positions-depend-on-the-log-writer", fmt.Sprintf("positions or line table differ when the log writer is %T: %d line feeds vs %d", wl, len(a.LineFeeds), len(b.LineFeeds)), det(""))
			return
		}
		_, _, qx := bcl.Execute(qp)
		if fmt.Sprint(qx) != fmt.Sprint(res.Err) && !unspec && res.Panic == "" {
			c.Violation("positions-depend-on-the-log-writer", fmt.Sprintf("with log writer %T the run ends in %v, otherwise in %v", wl, qx, res.Err), det(""))
			return
		}
		c.Count("programs_recompiled_with_other_log_writers", 1)
	}
	if perr == nil && res.Err != nil && i%2 == 0 {
		d, derr, pan, _ := dumpOf(prog)
		if derr == nil && pan == "" {
			var lg3, out3 bytes.Buffer
			lp, lerr := bcl.LoadProg(bytes.NewReader(d), "in", bcl.OptLogger(&lg3), bcl.OptOutput(&out3))
			if i%4 == 2 {
				// load into a Prog that already holds another program with a longer line table
				lp, lerr = bcl.Parse([]byte(strings.Repeat("\n", 50+len(src)/8)+"print 1\n"), "earlier", bcl.OptLogger(&lg3), bcl.OptOutput(&out3))
				if lerr == nil {
					lerr = lp.Load(bytes.NewReader(d))
				}
			}
			if lerr == nil {
				_, _, xerr := bcl.Execute(lp)
				c.Eval(1)
				if xerr == nil || xerr.Error() != res.Err.Error() {
					c.Violation("position-lost-in-dump-load", fmt.Sprintf("after dump and load the error is %v, before it was %v", xerr, res.Err), det(""))
					return
				}
				c.Count("positions_compared_after_dump_load", 1)
			}
		}
	}
	if decoded > 0 {
		c.Nontrivial(core.Hash(src))
		c.Count("positions_decoded", int64(decoded))
		if c.WantSample() && len(src) < 300 && len(pad) == 0 {
			c.Sample(map[string]any{"source": fmt.Sprintf("%q", src), "diagnostics": lg.String(), "error": fmt.Sprint(res.Err)})
		}
	}
}

// c08Limits: runtime errors raised at the implementation limits must also
// point just after the last token of the failing operation: the operand whose
// push finds the stack full, the 'def' ... '{' of the block that does not fit.
// c08Long: programs of more than a thousand lines.
//
//	kind 0: one failing statement (division by zero, directly followed by the newline) at line L of n,
//	        for a batch of 50 values of L: the error must be at the end of that statement;
//	kind 1: every line is a statement with a syntax error of its own: one diagnostic per line, each
//	        decoding to its own line;
//	kind 2: k distinct constants in front of an operation that fails at an operand fetched through a
//	        1-, 2- or 3-byte constant index, directly and after dump and load.
func c08Long(c *core.Ctx, i int64, kind, k int) {
	switch kind {
	case 0:
		const n = 1300
		for L := k * 50; L < (k+1)*50 && L < n; L++ {
			var b strings.Builder
			want := -1
			for j := 0; j < n; j++ {
				if j == L {
					b.WriteString("eval 1 / 0")
					want = b.Len()
					b.WriteString("\n")
				} else {
					b.WriteString("eval 1\n")
				}
			}
			src := []byte(b.String())
			res := InterpretReused(src)
			c.Eval(1)
			if res.Panic != "" || res.Err == nil {
				c.Violation("runtime-error-position", fmt.Sprintf("a %d-line program failing at line %d: err=%v %s", n, L+1, res.Err, res.Panic), nil)
				return
			}
			_, pos, ok := lang.ClassOfRuntimeError(res.Err.Error())
			if exp := posString(src, want); !ok || pos != exp {
				c.Violation("runtime-error-position", fmt.Sprintf("a %d-line program whose line %d divides by zero reports %q, the failing operation's last token ends at %s", n, L+1, res.Err, exp), nil)
				return
			}
			c.Count("long_program_error_positions_checked", 1)
		}
		c.Nontrivial(core.Hash("long-sweep", k))
	case 1:
		n := []int{1100, 2100, 3100}[k%3]
		stmt := []string{"print )", "eval 1 +", "var = 1"}[k/3%3]
		src := []byte(strings.Repeat(stmt+"\n", n))
		_, log, err, pan, _ := ParseOnly(src, "in")
		c.Eval(1)
		if pan != "" || err == nil {
			c.Violation("compile-diagnostic-position", fmt.Sprintf("%d lines of %q: err=%v %s", n, stmt, err, pan), nil)
			return
		}
		diags, _, _ := ParseDiags(log)
		lines := map[int]bool{}
		for _, d := range diags {
			if why := decodeDiag(src, d, false); why != "" {
				c.Violation("compile-diagnostic-position", fmt.Sprintf("%d lines of %q: diagnostic %q: %s", n, stmt, d.Raw, why), nil)
				return
			}
			lines[d.Line] = true
		}
		// each toplevel statement starting with a keyword gets a diagnostic of its own (C17): one per line here,
		// except that "eval 1 +" reports at the keyword of the following line
		if len(lines) < n-1 {
			c.Violation("compile-diagnostic-position", fmt.Sprintf("%d lines of %q give diagnostics on %d distinct lines only", n, stmt, len(lines)), nil)
			return
		}
		c.Count("long_program_diagnostics_decoded", int64(len(diags)))
		c.Nontrivial(core.Hash("long-diags", k))
	case 3:
		// a child block as an operand: the operators refuse it; '§' marks where the failing operation's last token ends
		srcs := []string{
			"def a { def b {}\n print not (b == 1§) }", "def a { def b {}\n print not (\n b == 1§\n ) }", "def a { def b {}\n x = not (1 != b§) and 2 }",
			"def a { def b {}\n x = b + 1§ }", "def a { def b {}\n x = - b§ }", "def a { def b {}\n x = not not (b < 2§) }", "def a { def b {}\n x = (b * 2§) }",
			"def a { def b {}\n print not (b == b§)\n}", "def a { def b { y = 1 }\n x = 1 + not (2 == b§)\n}", "def a { def b {}\n x = not (b == 1§\n\n\n) }",
			"def a { def b {}\n x = \"s\" + b§ }", "def a { def b {}\n var v = b\n x = not (v == nil§) }",
		}
		marked := srcs[k%len(srcs)]
		want := strings.Index(marked, "§")
		src := []byte(strings.Replace(marked, "§", "", 1))
		res := InterpretReused(src)
		c.Eval(1)
		if res.Panic != "" {
			c.Violation(panicSig(res.Panic, res.Stack), "panic on a block operand: "+res.Panic, map[string]any{"source": string(src)})
			return
		}
		if res.Err == nil {
			c.Count("block_operand_programs_without_error", 1)
			return
		}
		_, pos, ok := lang.ClassOfRuntimeError(res.Err.Error())
		if exp := posString(src, want); !ok || pos != exp {
			c.Violation("runtime-error-position", fmt.Sprintf("%q: error %q, the failing operation's last token ends at %s", src, res.Err, exp), map[string]any{"source": string(src)})
			return
		}
		c.Count("block_operand_error_positions_checked", 1)
		c.Nontrivial(core.Hash("block-operand", k))
	default:
		nc := []int{10, 239, 240, 241, 245, 2287, 2288, 2400}[k%8]
		tail := []string{"def blk { x = 1 + missing_name", "def blk { y = 2\n z = missing_name", "bind missing_type -> struct", "print \"s\" * 2 - 1"}[k/8%4]
		var b strings.Builder
		for j := 0; j < nc; j++ {
			fmt.Fprintf(&b, "eval %d.5\n", j)
		}
		b.WriteString(tail)
		want := b.Len()
		if strings.HasPrefix(tail, "def") {
			b.WriteString("\n}\n")
		} else {
			b.WriteString("\n")
		}
		src := []byte(b.String())
		exp := posString(src, want)
		var out, lg bytes.Buffer
		p, err := bcl.Parse(src, "in", bcl.OptOutput(&out), bcl.OptLogger(&lg))
		if err != nil {
			c.Inconclusive("harness: a long-constants program does not parse: " + lg.String())
			return
		}
		for route := 0; route < 2; route++ {
			q := p
			if route == 1 {
				d, derr, dpan, _ := dumpOf(p)
				if derr != nil || dpan != "" {
					c.Violation("runtime-error-position", fmt.Sprintf("Dump of a program with %d constants fails: %v %s", nc, derr, dpan), nil)
					return
				}
				var lerr error
				q, lerr = bcl.LoadProg(bytes.NewReader(d), "in", bcl.OptOutput(&out), bcl.OptLogger(&lg))
				if lerr != nil {
					c.Violation("runtime-error-position", fmt.Sprintf("the dump of a program with %d constants does not load: %v", nc, lerr), nil)
					return
				}
			}
			var xerr error
			pan, stack := protect(func() { _, _, xerr = bcl.Execute(q) })
			c.Eval(1)
			if pan != "" {
				c.Violation(panicSig(pan, stack), "Execute panicked: "+pan, nil)
				return
			}
			if xerr == nil {
				c.Violation("runtime-error-position", fmt.Sprintf("%d constants, then %q: no runtime error", nc, tail), nil)
				return
			}
			_, pos, ok := lang.ClassOfRuntimeError(xerr.Error())
			if !ok || pos != exp {
				c.Violation("runtime-error-position", fmt.Sprintf("%d constants, then %q (%s): error %q, the failing operation's last token ends at %s", nc, tail, []string{"parsed", "dumped and loaded"}[route], xerr, exp), nil)
				return
			}
			c.Count("wide_operand_error_positions_checked", 1)
		}
		c.Nontrivial(core.Hash("long-consts", k))
	}
}

func c08Limits(c *core.Ctx, i int64, k int) {
	var b strings.Builder
	want := -1
	kind := ""
	pushers := []string{"2", "0", "1", "true", "false", "nil", "v0", "\"s\"", "2.5", "f"}
	switch {
	case k < len(pushers)*3:
		// 1022..1024 variables, then a statement pushing one or two operands
		x := pushers[k%len(pushers)]
		nv := 1022 + k/len(pushers)
		inBlock := x == "f"
		if inBlock {
			b.WriteString("def b {\n")
		}
		for j := 0; j < nv; j++ {
			fmt.Fprintf(&b, "var v%d = %d\n", j, j%7)
		}
		// three operands are pushed on top of nv variables; the one that finds
		// the 1024-slot stack full is operand number 1024-nv (0-based)
		ops := []string{"5", "6", x}
		early := -1
		if inBlock {
			b.WriteString("g = 1")
			early = b.Len() // with 1024 variables already this push finds the stack full
			b.WriteString("\neval ")
			ops = []string{"g", "g", x}
		} else {
			b.WriteString("print ")
		}
		var ends [3]int
		b.WriteString(ops[0])
		ends[0] = b.Len()
		b.WriteString(" == (" + ops[1])
		ends[1] = b.Len()
		b.WriteString(" == " + ops[2])
		ends[2] = b.Len()
		b.WriteString(")\n")
		if inBlock {
			b.WriteString("}\n")
		}
		want = ends[1024-nv]
		if inBlock && nv == 1024 {
			want = early
		}
		kind = "locals_then_" + x
	default:
		// nested operands: the 1025th operand finds the stack full
		n := 1030 + (k - len(pushers)*3)
		b.WriteString("print ")
		for j := 0; j < n; j++ {
			b.WriteString("1+(")
			if j == 1024 {
				want = b.Len() - 2
			}
		}
		b.WriteString("1" + strings.Repeat(")", n) + "\n")
		kind = "nested_operands"
	}
	src := []byte(b.String())
	res := InterpretReused(src)
	c.Eval(1)
	if res.Panic != "" {
		c.Violation(panicSig(res.Panic, res.Stack), "panic at an implementation limit: "+res.Panic, map[string]any{"kind": kind})
		return
	}
	if res.Err == nil {
		c.Count("limit_programs_without_error", 1)
		return
	}
	_, pos, ok := lang.ClassOfRuntimeError(res.Err.Error())
	if !ok {
		return
	}
	if want < 0 {
		return
	}
	if exp := posString(src, want); pos != exp {
		c.Violation("runtime-error-position", fmt.Sprintf("error %q at %s, the failing operation's last token ends at %s (%s)", res.Err, pos, exp, kind),
			map[string]any{"kind": kind, "source_tail": string(src[max(0, len(src)-200):])})
		return
	}
	c.Count("limit_error_positions_checked", 1)
	c.Nontrivial(core.Hash("limit", k))
}

func init() {
	core.Register(&core.Check{
		ID:    "C08",
		Level: "exploration",
		Rule: "position monitor: (i) decode check on every diagnostic with the harness's own newline index: L:C designates an offset of the source, L-1 newlines precede it, the quoted token is the source text ending exactly there, 'at end' is the end of input; (ii) prediction check: first compile diagnostic at the end of the first non-viable token (independent recognizer), runtime errors and warnings at the end of the last token of the failing operation (reference model + renderer's token spans); " +
			"(iii) the program's line table equals the newline offsets of the source, one position per code byte, each a token end; (iv) the same diagnostics, positions and line table under chunked ParseFile, the same runtime error after dump and load. " +
			"Workload: generated programs (runtime errors and warnings at every statement), token-damaged programs (compile errors everywhere), rendered with hostile multi-line layout (blank lines, CR LF, CR-only, comments, multi-byte characters before the error) and padded by 0/250/2300/4100/8200/68000 bytes so that offsets cross the read page and every varint class. " +
			"distinct = hash of source; non-trivial = at least one position decoded or predicted Also: 34 programs failing exactly at the operand-stack limit with the position expected at the operand whose push finds the stack full; value-less block names (the diagnostic must sit at the name); the dump/load route alternates LoadProg with Prog.Load into a Prog that held another program. Long programs: a 1300-line program failing at line L for every L; 1100/2100/3100 lines each with a syntax error of its own (every diagnostic decoded, one per line); 10..2400 constants in front of an operation failing at an operand fetched through a 1-, 2- or 3-byte index, parsed and after dump and load; a child block as operand of every operator kind, also under 'not (...)' and across lines. A third of the accepted programs are compiled once more with io.Discard (or a func adapter) as log and output writer: same positions, same line table, same runtime error.",
		Assumptions:   []string{"DESIGN §5.4 'Positions' is the location rule"},
		MinNontrivial: 1000,
		Run: func(c *core.Ctx) {
			n := int64(c.Pick(40000, 4000000))
			for i := int64(0); i < n; i++ {
				if !c.Mine(i) {
					continue
				}
				if i < 34 {
					c.Begin(i)
					c08Limits(c, i, int(i))
					continue
				}
				if i < 34+26+9+32+12 {
					c.Begin(i)
					switch k := int(i) - 34; {
					case k < 26:
						c08Long(c, i, 0, k)
					case k < 26+9:
						c08Long(c, i, 1, k-26)
					case k < 26+9+32:
						c08Long(c, i, 2, k-26-9)
					default:
						c08Long(c, i, 3, k-26-9-32)
					}
					continue
				}
				c.Idle()
				r := c.Rand(i)
				cfg := randProfile(r)
				cfg.ErrPct = 25
				cfg.CompileErrPct = 10
				cfg.BadNamePct = 3
				cfg.BadLitPct = 1
				g := lang.NewGen(r, cfg)
				p := g.Program()
				toks := lang.Flatten(p)
				orig := p
				if i%4 == 3 && len(toks) > 0 {
					pos := r.Intn(len(toks))
					nt := c17Vocab[r.Intn(len(c17Vocab))]
					switch r.Intn(3) {
					case 0:
						toks = append(append([]lang.Tok{}, toks[:pos]...), toks[pos+1:]...)
					case 1:
						toks = append(append(append([]lang.Tok{}, toks[:pos]...), nt), toks[pos:]...)
					default:
						toks = append([]lang.Tok{}, toks...)
						toks[pos] = nt
					}
					orig = nil
				}
				padClass := 0
				if i%16 == 5 {
					padClass = 2 + int(i/16)%5
					if c.Quick() && padClass == 6 && i%64 != 5 {
						padClass = 3
					}
				}
				c.Begin(i)
				c08Case(c, i, toks, orig, r, padClass)
			}
		},
	})
}
