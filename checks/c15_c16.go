package checks

import (
	"bytes"
	"fmt"
	"math"
	"math/rand"
	"os"
	"os/exec"
	"reflect"
	"sort"
	"strconv"
	"strings"

	"github.com/wkhere/bcl"

	"verif/internal/bc"
	"verif/internal/core"
	"verif/internal/lang"
	"verif/internal/mon"
)

// ---------------------------------------------------------------- C15

type embBase struct {
	Base int
	Tag  string
}

type withEmbedded struct {
	embBase
	Name string
	Own  int
}

type EmbPub struct {
	Base int
	Tag  string
}

type withEmbeddedPtr struct {
	*EmbPub
	Name string
	Own  int
}

type withEmbeddedUnexpPtr struct {
	*embBase
	Name string
	Own  int
}

type withEmbeddedAndTag struct {
	embBase
	Name  string
	Port  int `bcl:"listen"`
	Limit int
	Mode  string `bcl:"m"`
}

type withDigits struct {
	Name    string
	Port1   int
	Max_Con int
	AB      int
}

type prePopulated struct {
	Name string
	I    any
	P    *struct{ X int }
	Sub  any
}

type withUnexported struct {
	Name   string
	hidden int
	Shown  int
}

// withUnexportedStructs: unexported fields of struct, pointer and interface kind under the keys nested blocks use
type withUnexportedStructs struct {
	Name  string
	inner struct {
		Name    string
		Y, X, A int
	}
	sub struct {
		Name string
		X    int
	}
	a     A
	p     *struct{ X int }
	i     any
	Shown int
}

type withPointers struct {
	Name string
	P    *int
	S    *struct{ X int }
	I    any
	J    interface{ M() }
	A    [2]int
	M    map[string]int
	L    []int
	F    func()
	C    chan int
	Sub  struct{ X int }
}

type Named int
type blk int // a named non-struct type whose name matches block type "blk"

var c15FieldTypes = []reflect.Type{
	reflect.TypeOf(int(0)), reflect.TypeOf(float64(0)), reflect.TypeOf(""), reflect.TypeOf(false),
	reflect.TypeOf(int64(0)), reflect.TypeOf(int8(0)), reflect.TypeOf(uint(0)), reflect.TypeOf(float32(0)), reflect.TypeOf([]byte(nil)),
	reflect.TypeOf((*int)(nil)), reflect.TypeOf((*string)(nil)), reflect.TypeOf((*struct{ X int })(nil)),
	reflect.TypeOf((*any)(nil)).Elem(), reflect.TypeOf([2]int{}), reflect.TypeOf(map[string]any{}), reflect.TypeOf([]int{}), reflect.TypeOf([]struct{ X int }{}),
	reflect.TypeOf(func() {}), reflect.TypeOf(make(chan int)), reflect.TypeOf(struct{ X int }{}), reflect.TypeOf(struct{}{}), reflect.TypeOf(Named(0)),
	reflect.TypeOf(bcl.Block{}), reflect.TypeOf((*bcl.Block)(nil)),
}

// c15Foreign: values the VM never produces but a hand-built block may carry.
func c15Foreign(r *rand.Rand) any {
	x := 5
	blkv := bcl.Block{Type: "sub", Fields: map[string]any{"x": 1}}
	vals := []any{
		int64(7), int8(-3), uint(9), uint8(200), float32(1.5), complex(1, 2), Named(3), 'r',
		[]byte("ab"), []int{1, 2}, []string{}, []any{1, "s"}, [2]int{1, 2}, map[string]any{"k": 1}, map[string]int{},
		&x, &blkv, []bcl.Block{blkv}, make(chan int), struct{ X int }{4}, struct{}{}, A{X: 2},
		// same underlying type as Block, but not Block
		struct {
			Type, Name string
			Fields     map[string]any
		}{"sub", "", map[string]any{"x": 1}},
		struct {
			Type, Name string
			Fields     map[string]any
		}{},
	}
	return vals[r.Intn(len(vals))]
}

func c15Value(r *rand.Rand, depth int) any {
	if r.Intn(12) == 0 {
		return c15Foreign(r)
	}
	switch k := r.Intn(12); {
	case k < 3:
		return r.Intn(100) - 50
	case k < 5:
		if r.Intn(6) == 0 {
			// values that == cannot tell apart or does not equal to themselves
			return []float64{math.Copysign(0, -1), 0, math.NaN(), math.Inf(-1)}[r.Intn(4)]
		}
		return float64(r.Intn(100)) / 4
	case k < 7:
		return []string{"", "s", "hello", "é"}[r.Intn(4)]
	case k < 9:
		return r.Intn(2) == 0
	case k == 9:
		return nil
	default:
		if depth >= 3 {
			return 7
		}
		return c15Block(r, depth+1)
	}
}

// c15FoldNames: Go field names that equal an ASCII key under case folding although the letters have another
// width in UTF-8 (KELVIN SIGN, LONG S, ANGSTROM SIGN, OHM SIGN, capital sharp s, dotless/dotted i do not fold to ASCII and stay out)
var c15FoldNames = map[string]string{"k": "\u212a", "ok": "O\u212a", "kind": "\u212aind", "mist": "Mi\u017ft", "sk": "S\u212a", "ks": "\u212a\u017f",
	"\u00e5": "\u212b", "b\u00e5": "B\u212b", "\u03c9": "\u2126", "\u03c9x": "\u2126x", "ma\u00df": "Ma\u1e9e", "\u00dfa": "\u1e9ea"}

var c15Keys = []string{"k", "ok", "kind", "mist", "sk", "ks", "\u00e5", "b\u00e5", "\u03c9", "\u03c9x", "ma\u00df", "\u00dfa", "port\x11", "max\x7fcon", "port1", "max_con", "Port\x111", "a\x00b", "listen", "limit", "port", "mode", "x", "a", "ab", "a_b", "A_B", "count", "max_latency", "MaxLatency", "sub", "sub.n1", "sub.n2", "inner", "p", "s", "i", "j", "m", "l", "f", "c", "base", "tag", "own", "hidden", "shown", "name", "Name", "q"}

func c15Block(r *rand.Rand, depth int) bcl.Block { return c15BlockW(r, depth, false) }

func c15BlockW(r *rand.Rand, depth int, forceWide bool) bcl.Block {
	b := bcl.Block{Type: []string{"blk", "t", "with_pointers", "withembedded", "with_unexported", "a", "sub", "inner", "i", "p"}[r.Intn(10)], Fields: map[string]any{}}
	if r.Intn(2) == 0 {
		b.Name = []string{"n", "nm", "x y"}[r.Intn(3)]
	}
	nf := r.Intn(5)
	wide := depth <= 1 && r.Intn(12) == 0 || forceWide
	if wide {
		// wide blocks (9..40 fields), also nested in each other
		nf = 9 + r.Intn(12)
		if r.Intn(4) == 0 {
			nf = 17 + r.Intn(24)
		}
	}
	for k, n := 0, nf; k < n; k++ {
		key := c15Keys[r.Intn(len(c15Keys))]
		if wide {
			key = fmt.Sprintf("%c%d", "wpaz"[r.Intn(4)], r.Intn(2*nf))
		}
		v := c15Value(r, depth)
		if wide && k < 3 && depth == 0 && r.Intn(2) == 0 {
			v = c15BlockW(r, depth+1, r.Intn(3) > 0)
		}
		if cb, ok := v.(bcl.Block); ok {
			// a nested block is stored under its own key, as the VM does
			key = cb.Type
			if cb.Name != "" {
				key += "." + cb.Name
			}
		}
		b.Fields[key] = v
	}
	if wide && depth == 0 && r.Intn(2) == 0 {
		// a child that looks like its parent: most of the parent's plain fields again, with values of the same types
		child := bcl.Block{Type: []string{"sub", "inner", "a", "zz"}[r.Intn(4)], Fields: map[string]any{}}
		keys := make([]string, 0, len(b.Fields))
		for k := range b.Fields {
			keys = append(keys, k)
		}
		sort.Strings(keys)
		for _, k := range keys {
			if r.Intn(5) == 0 {
				continue
			}
			switch v := b.Fields[k].(type) {
			case int:
				child.Fields[k] = v + 1000
			case float64:
				child.Fields[k] = v + 0.5
			case string:
				child.Fields[k] = v + "'"
			case bool:
				child.Fields[k] = !v
			}
		}
		b.Fields[child.Type] = child
	}
	if r.Intn(8) == 0 {
		b.Fields = nil
	}
	return b
}

// matchingType derives a struct type that can hold the block, then (maybe) breaks it.
func c15TargetType(r *rand.Rand, b bcl.Block, mutate bool) reflect.Type {
	var fs []reflect.StructField
	used := map[string]bool{}
	add := func(name string, t reflect.Type, tag string) {
		f := foldKey(name)
		if used[f] || name == "" {
			return
		}
		used[f] = true
		sf := reflect.StructField{Name: name, Type: t}
		if tag != "" {
			sf.Tag = reflect.StructTag("bcl:" + strconv.Quote(tag))
		}
		fs = append(fs, sf)
	}
	if b.Name != "" || r.Intn(2) == 0 {
		add("Name", reflect.TypeOf(""), "")
	}
	keys := make([]string, 0, len(b.Fields))
	for k := range b.Fields {
		keys = append(keys, k)
	}
	sort.Strings(keys)
	for _, k := range keys {
		base := strings.SplitN(k, ".", 2)[0]
		goName := "F" + strings.ReplaceAll(base, "_", "")
		tag := ""
		if r.Intn(3) > 0 {
			// reachable by name: the Go name must fold-equal the key
			goName = strings.ToUpper(base[:1]) + strings.ReplaceAll(base[1:], "_", "")
		} else {
			tag = k
		}
		if alt, ok := c15FoldNames[k]; ok && r.Intn(3) > 0 {
			goName, tag = alt, ""
		} else if !validGoName(goName) || goName[0] < 'A' || goName[0] > 'Z' {
			// keys that no Go identifier can spell (control bytes): reachable through a tag only
			goName = fmt.Sprintf("K%x", base)
			tag = k
		}
		var t reflect.Type
		switch v := b.Fields[k].(type) {
		case nil:
			t = reflect.TypeOf((*any)(nil)).Elem()
		case bcl.Block:
			t = c15TargetType(r, v, false)
		default:
			t = reflect.TypeOf(v)
		}
		if mutate && r.Intn(3) == 0 {
			t = c15FieldTypes[r.Intn(len(c15FieldTypes))]
		}
		if mutate && r.Intn(8) == 0 {
			continue // counterpart missing
		}
		add(goName, t, tag)
	}
	if r.Intn(3) == 0 {
		add("Extra"+fmt.Sprint(r.Intn(9)), c15FieldTypes[r.Intn(len(c15FieldTypes))], "")
	}
	if len(fs) == 0 {
		return reflect.TypeOf(struct{}{})
	}
	return reflect.StructOf(fs)
}

func validGoName(n string) bool {
	if n == "" {
		return false
	}
	for i, c := range n {
		if !(c == '_' || c >= 'a' && c <= 'z' || c >= 'A' && c <= 'Z' || (i > 0 && c >= '0' && c <= '9')) {
			return false
		}
	}
	return true
}

func c15Targets(r *rand.Rand, bd bcl.Binding) any {
	var first bcl.Block
	switch b := bd.(type) {
	case bcl.StructBinding:
		first = b.Value
	case bcl.SliceBinding:
		if len(b.Value) > 0 {
			first = b.Value[0]
		}
	}
	mk := func(t reflect.Type, slice bool) any {
		if slice {
			p := reflect.New(reflect.SliceOf(t))
			// previous contents
			for k, n := 0, r.Intn(4); k < n; k++ {
				p.Elem().Set(reflect.Append(p.Elem(), reflect.New(t).Elem()))
			}
			return p.Interface()
		}
		return reflect.New(t).Interface()
	}
	_, isSlice := bd.(bcl.SliceBinding)
	switch k := r.Intn(20); {
	case k < 7:
		return mk(c15TargetType(r, first, false), isSlice)
	case k < 12:
		return mk(c15TargetType(r, first, true), isSlice)
	case k == 12:
		return mk(c15TargetType(r, first, false), !isSlice) // wrong kind for the binding
	case k == 13 || k == 15:
		zt := []reflect.Type{reflect.TypeOf(withEmbedded{}), reflect.TypeOf(withUnexported{}), reflect.TypeOf(withPointers{}), reflect.TypeOf(A{}), reflect.TypeOf(Tunnel{}),
			reflect.TypeOf(withDigits{}), reflect.TypeOf(prePopulated{}), reflect.TypeOf(prePopulated{}), reflect.TypeOf(withEmbeddedPtr{}), reflect.TypeOf(withEmbeddedUnexpPtr{}), reflect.TypeOf(withEmbeddedAndTag{}), reflect.TypeOf(withEmbeddedAndTag{}), reflect.TypeOf(withUnexportedStructs{}), reflect.TypeOf(withUnexportedStructs{})}
		return mk(zt[r.Intn(len(zt))], isSlice)
	case k == 14:
		// hostile non-struct things
		var np *withPointers
		var ni *int
		x := 5
		s := "str"
		m := map[string]int{}
		ch := make(chan int)
		fn := func() {}
		var ip any = &x
		pp := &np
		bl := blk(1)
		sn := []int{1, 2}
		ss := []string{"a"}
		sb := []blk{1}
		sp := []*A{{X: 1}}
		arr := [3]A{}
		return []any{nil, 5, "s", withPointers{}, []A{}, m, ch, fn, np, ni, &x, &s, &m, &ch, &fn, &ip, pp, &bl, &sn, &ss, &sb, &sp, &arr, bl, (*[]A)(nil), new(any), new(*A), new([]any)}[r.Intn(28)]
	}
	return mk(c15TargetType(r, first, r.Intn(2) == 0), isSlice)
}

// checkStored verifies the post-condition after Bind returned nil: every field
// of the block and its non-empty name are present unchanged in the struct.
// skip=true when the key set is ambiguous under the matching rule.
func checkStored(b bcl.Block, v reflect.Value) (problem string, skip bool) {
	t := v.Type()
	if t.Kind() != reflect.Struct {
		return fmt.Sprintf("block %q stored into a %s", b.Type, t.Kind()), false
	}
	if n := t.Name(); n != "" && foldKey(n) != foldKey(b.Type) {
		return fmt.Sprintf("struct type %s does not match block type %s", n, b.Type), false
	}
	// collisions: two keys (or a key and the block name) designating one
	// field: only 'no panic' is claimed (DESIGN §6 C15)
	seen := map[int]string{}
	keys := make([]string, 0, len(b.Fields)+1)
	for k := range b.Fields {
		keys = append(keys, k)
	}
	sort.Strings(keys)
	{
		pre := map[int]bool{}
		all := keys
		if b.Name != "" {
			all = append([]string{"Name"}, keys...)
		}
		for _, k := range all {
			idx, found, amb := fieldFor(t, k)
			if amb {
				return "", true
			}
			if found {
				if pre[idx] {
					return "", true
				}
				pre[idx] = true
			}
		}
	}
	if b.Name != "" {
		idx, found, amb := fieldFor(t, "Name")
		if amb {
			return "", true
		}
		if !found {
			return fmt.Sprintf("block name %q has no Name field in %s", b.Name, t), false
		}
		seen[idx] = "Name"
		vfs := reflect.VisibleFields(t)
		f, ferr := v.FieldByIndexErr(vfs[idx].Index)
		if ferr != nil {
			return "name stored through a nil embedded pointer", false
		}
		if !vfs[idx].IsExported() {
			return "name stored into an unexported field", false
		}
		if f.Kind() != reflect.String && f.Kind() != reflect.Interface {
			return fmt.Sprintf("block name stored into a %s field", f.Kind()), false
		}
		if got := fmt.Sprint(f.Interface()); got != b.Name {
			return fmt.Sprintf("Name field holds %q, block name is %q", got, b.Name), false
		}
	}
	for _, k := range keys {
		idx, found, amb := fieldFor(t, k)
		if amb {
			return "", true
		}
		if !found {
			return fmt.Sprintf("field %q of block %s has no counterpart in %s, yet Bind returned nil", k, b.Type, t), false
		}
		if prev, dup := seen[idx]; dup {
			_ = prev
			return "", true // two keys collide on one struct field: only 'no panic' is claimed (DESIGN §6 C15)
		}
		seen[idx] = k
		sf := reflect.VisibleFields(t)[idx]
		if !sf.IsExported() {
			return fmt.Sprintf("field %q mapped to unexported %s, yet Bind returned nil", k, sf.Name), false
		}
		fv, ferr := v.FieldByIndexErr(sf.Index)
		if ferr != nil {
			return fmt.Sprintf("field %q mapped through a nil embedded pointer, yet Bind returned nil", k), false
		}
		want := b.Fields[k]
		switch w := want.(type) {
		case nil:
			return fmt.Sprintf("field %q has a nil value, yet Bind returned nil", k), false
		case bcl.Block:
			for fv.Kind() == reflect.Interface && !fv.IsNil() {
				fv = fv.Elem()
			}
			if fv.Kind() != reflect.Struct {
				return fmt.Sprintf("nested block %q stored into a %s destination, yet Bind returned nil", k, fv.Kind()), false
			}
			if fv.Type() == reflect.TypeOf(bcl.Block{}) {
				if !deepBlockEq(fv.Interface().(bcl.Block), w) {
					return fmt.Sprintf("nested block %q stored into a Block field differs", k), false
				}
				continue
			}
			if p, sk := checkStored(w, fv); p != "" || sk {
				return p, sk
			}
		default:
			got := fv.Interface()
			wv := reflect.ValueOf(want)
			if !wv.Type().AssignableTo(fv.Type()) {
				return fmt.Sprintf("field %q: a %T is not assignable to the %s destination, yet Bind returned nil (struct holds %#v)", k, want, fv.Type(), got), false
			}
			if fv.Kind() != reflect.Interface {
				// an assignable destination of another (unnamed/named twin) type holds the same value under its own type
				want = wv.Convert(fv.Type()).Interface()
			}
			if wf, isF := want.(float64); isF {
				// bit for bit: -0.0 is not +0.0, and NaN is what was stored
				gf, ok := got.(float64)
				if !ok || math.Float64bits(gf) != math.Float64bits(wf) {
					return fmt.Sprintf("field %q: struct holds %#v (%T), block has float %v (bits %016x): coerced or dropped", k, got, got, wf, math.Float64bits(wf)), false
				}
				continue
			}
			if !reflect.DeepEqual(got, want) {
				return fmt.Sprintf("field %q: struct holds %#v (%T), block has %#v (%T): coerced or dropped", k, got, got, want, want), false
			}
		}
	}
	return "", false
}

// c15Deep: hand-built bindings nested deeper than the VM ever produces (17..40 levels).
func c15Deep(c *core.Ctx, i int64, depth int, fault bool) {
	var mkB func(d int) bcl.Block
	mkB = func(d int) bcl.Block {
		b := bcl.Block{Type: "lvl", Fields: map[string]any{"v": d}}
		if d < depth {
			b.Fields["lvl"] = mkB(d + 1)
		} else if fault {
			b.Fields["v"] = "not an int"
		}
		return b
	}
	var mkT func(d int) reflect.Type
	mkT = func(d int) reflect.Type {
		fs := []reflect.StructField{{Name: "V", Type: reflect.TypeOf(0)}}
		if d < depth {
			fs = append(fs, reflect.StructField{Name: "Lvl", Type: mkT(d + 1)})
		}
		return reflect.StructOf(fs)
	}
	target := reflect.New(mkT(1))
	var err error
	pan, stack := protect(func() { err = bcl.Bind(target.Interface(), bcl.StructBinding{Value: mkB(1)}) })
	c.Eval(1)
	if pan != "" {
		c.Violation(panicSig(pan, stack), fmt.Sprintf("Bind panicked on a binding nested %d levels deep: %s", depth, pan), nil)
		return
	}
	if fault != (err != nil) {
		c.Violation("deep-binding", fmt.Sprintf("binding nested %d levels, fault at the innermost level=%v: err=%v", depth, fault, err), nil)
		return
	}
	if !fault {
		v := target.Elem()
		for d := 1; d <= depth; d++ {
			if int(v.Field(0).Int()) != d {
				c.Violation("silent-drop-or-coercion", fmt.Sprintf("level %d of a %d-level binding holds %d", d, depth, v.Field(0).Int()), nil)
				return
			}
			if d < depth {
				v = v.Field(1)
			}
		}
	}
	c.Count("deep_hand_built_bindings", 1)
	c.Nontrivial(core.Hash("deep", depth, fault))
}

// c15Filled: nested blocks whose destination field is already filled in (an interface holding a
// struct by value or by pointer, a non-nil pointer to a struct, a nil one): never a panic, and nil
// only if the values really arrived in a struct.
func c15Filled(c *core.Ctx, i int64, k int) {
	type inner struct{ X int }
	type filled struct {
		Name string
		I    any
		P    *inner
		Q    **inner
		S    inner
	}
	t := &filled{}
	ip := &inner{X: 8}
	switch k % 6 {
	case 0:
		t.I = inner{X: 7}
	case 1:
		t.I = &inner{X: 7}
	case 2:
		t.P = ip
	case 3:
		t.Q = &ip
	case 4:
		t.I = struct{ X int }{7}
	}
	key := []string{"i", "i", "p", "q", "i", "s"}[k%6]
	b := bcl.Block{Type: "filled", Fields: map[string]any{key: bcl.Block{Type: "inner", Fields: map[string]any{"x": 5}}}}
	if k >= 6 {
		b.Fields[key] = bcl.Block{Type: key, Fields: map[string]any{"x": 5}}
	}
	var err error
	pan, stack := protect(func() { err = bcl.Bind(t, bcl.StructBinding{Value: b}) })
	c.Eval(1)
	if pan != "" {
		c.Violation(panicSig(pan, stack), fmt.Sprintf("Bind panicked with a nested block for an already filled-in %s destination: %s", key, pan), nil)
		return
	}
	if err == nil {
		if p, skip := checkStored(b, reflect.ValueOf(t).Elem()); !skip && p != "" {
			c.Violation("silent-drop-or-coercion", "Bind returned nil although "+p, nil)
			return
		}
	}
	c.Count("filled_in_destinations", 1)
	c.Nontrivial(core.Hash("filled", k))
}

func c15Case(c *core.Ctx, i int64, r *rand.Rand) {
	if i < 60 {
		c15Deep(c, i, 10+int(i)/2, i%2 == 1)
		return
	}
	if i < 72 {
		c15Filled(c, i, int(i-60))
		return
	}
	var bd bcl.Binding
	switch r.Intn(10) {
	case 0:
		bd = nil
	case 1, 2, 3:
		n := r.Intn(4)
		bs := make([]bcl.Block, n)
		first := c15Block(r, 0)
		for k := range bs {
			bs[k] = c15Block(r, 0)
			bs[k].Type = first.Type
			if r.Intn(2) == 0 && k > 0 {
				// same shape as the first
				bs[k].Fields = map[string]any{}
				for kk, vv := range first.Fields {
					bs[k].Fields[kk] = vv
				}
			}
		}
		if n > 0 {
			bs[0] = first
		}
		bd = bcl.SliceBinding{Value: bs}
		if r.Intn(10) == 0 {
			bd = bcl.SliceBinding{}
		}
	default:
		bd = bcl.StructBinding{Value: c15Block(r, 0)}
	}
	target := c15Targets(r, bd)
	if r.Intn(25) == 0 {
		// a pointer to a binding value also satisfies the Binding interface (value receivers); typed nil ones included
		switch b := bd.(type) {
		case bcl.StructBinding:
			bd = []bcl.Binding{&b, (*bcl.StructBinding)(nil)}[r.Intn(2)]
		case bcl.SliceBinding:
			bd = []bcl.Binding{&b, (*bcl.SliceBinding)(nil)}[r.Intn(2)]
		}
		c.Count("pointer_bindings", 1)
	}
	// destinations that are already filled in: an interface holding a struct by value, a non-nil pointer
	if pp, ok := target.(*prePopulated); ok {
		pp.I = struct{ X int }{7}
		pp.P = &struct{ X int }{8}
		pp.Sub = A{X: 9}
	}
	if pps, ok := target.(*[]prePopulated); ok {
		for k := range *pps {
			(*pps)[k].I = struct{ X int }{7}
			(*pps)[k].P = &struct{ X int }{8}
		}
	}
	// a named struct type as target: the blocks take its name as their type
	if tt := reflect.TypeOf(target); tt != nil && tt.Kind() == reflect.Pointer {
		et := tt.Elem()
		if et.Kind() == reflect.Slice {
			et = et.Elem()
		}
		if et.Kind() == reflect.Struct && et.Name() != "" && r.Intn(4) > 0 {
			name := strings.ToLower(et.Name())
			switch b := bd.(type) {
			case bcl.StructBinding:
				b.Value.Type = name
				bd = b
			case bcl.SliceBinding:
				for k := range b.Value {
					b.Value[k].Type = name
				}
			}
		}
	}
	desc := fmt.Sprintf("binding=%s target=%T", core.Trunc(canonBinding(bd), 600), target)
	c.Note("%s", core.Trunc(desc, 300))
	c.NoteInput("pair", []byte(desc))
	// snapshot of a slice target
	var snap any
	tv := reflect.ValueOf(target)
	if tv.IsValid() && tv.Kind() == reflect.Pointer && !tv.IsNil() && tv.Elem().Kind() == reflect.Slice {
		cp := reflect.MakeSlice(tv.Elem().Type(), tv.Elem().Len(), tv.Elem().Len())
		reflect.Copy(cp, tv.Elem())
		snap = cp.Interface()
	}
	if h := core.Hash(desc); h%64 == 11 {
		EarlierCall(h >> 6) // a library call of another kind first (see common.go)
		c.Count("binds_after_an_earlier_call_of_another_kind", 1)
	}
	var err error
	pan, stack := protect(func() { err = bcl.Bind(target, bd) })
	c.Eval(1)
	det := func() map[string]any {
		return map[string]any{"binding": core.Trunc(canonBinding(bd), 2000), "target_type": fmt.Sprintf("%T", target), "error": fmt.Sprint(err)}
	}
	if pan != "" {
		c.Violation(panicSig(pan, stack), "Bind panicked: "+pan+"\n"+core.Trunc(stack, 900), det())
		return
	}
	crossed := 0
	if err != nil {
		c.Count("errors_returned", 1)
		if snap != nil && !(reflect.ValueOf(snap).Len() == tv.Elem().Len() && (tv.Elem().Len() == 0 || reflect.DeepEqual(snap, tv.Elem().Interface()))) {
			c.Violation("slice-modified-on-error", "Bind returned an error but the slice target changed", det())
			return
		}
		if snap != nil {
			c.Count("slice_targets_unchanged_after_error", 1)
		}
	} else {
		c.Count("nil_returned", 1)
		if bd == nil {
			c.Violation("nil-binding-accepted", "Bind returned nil for a nil binding", det())
			return
		}
		if !tv.IsValid() || tv.Kind() != reflect.Pointer || tv.IsNil() {
			c.Violation("bad-target-accepted", "Bind returned nil for a target that is not a non-nil pointer", det())
			return
		}
		if pb, ok := bd.(*bcl.StructBinding); ok && pb != nil {
			bd = *pb
		}
		if pb, ok := bd.(*bcl.SliceBinding); ok && pb != nil {
			bd = *pb
		}
		switch b := bd.(type) {
		case *bcl.StructBinding, *bcl.SliceBinding:
			c.Violation("nil-binding-accepted", "Bind returned nil for a nil pointer binding", det())
			return
		case bcl.StructBinding:
			if tv.Elem().Kind() != reflect.Struct {
				c.Violation("bad-target-accepted", "struct binding accepted a "+tv.Elem().Kind().String()+" target", det())
				return
			}
			p, skip := checkStored(b.Value, tv.Elem())
			if skip {
				c.Count("pairs_with_colliding_keys_skipped", 1)
			} else if p != "" {
				c.Violation("silent-drop-or-coercion", "Bind returned nil although "+p, det())
				return
			}
			crossed = len(b.Value.Fields)
		case bcl.SliceBinding:
			if tv.Elem().Kind() != reflect.Slice {
				c.Violation("bad-target-accepted", "slice binding accepted a "+tv.Elem().Kind().String()+" target", det())
				return
			}
			if tv.Elem().Len() != len(b.Value) {
				c.Violation("slice-length", fmt.Sprintf("slice target has %d elements for %d blocks", tv.Elem().Len(), len(b.Value)), det())
				return
			}
			for k, blkv := range b.Value {
				p, skip := checkStored(blkv, tv.Elem().Index(k))
				if skip {
					c.Count("pairs_with_colliding_keys_skipped", 1)
					break
				}
				if p != "" {
					c.Violation("silent-drop-or-coercion", fmt.Sprintf("Bind returned nil although (element %d) %s", k, p), det())
					return
				}
				crossed += len(blkv.Fields)
			}
		}
	}
	c.SetAdd("target_kinds", func() string {
		if !tv.IsValid() {
			return "nil"
		}
		if tv.Kind() == reflect.Pointer {
			return "*" + tv.Type().Elem().Kind().String()
		}
		return tv.Kind().String()
	}())
	c.Nontrivial(core.Hash(desc))
	c.Count("fields_crossed_the_reflection_layer", int64(crossed))
	if c.WantSample() && err != nil && len(desc) < 400 {
		c.Sample(map[string]any{"pair": desc, "error": err.Error()})
	}
}

func init() {
	core.Register(&core.Check{
		ID:    "C15",
		Level: "exploration",
		Rule: "crash + post-condition monitor over generated (binding, target) pairs: bindings {nil, struct, slice (0-3 blocks, empty)} whose blocks hold int/float/string/bool/NIL values and nested blocks to depth 3, keys that collide after folding, named children; targets: a type derived from the block (by name or by tag), the same with fields retyped to one of 24 kinds (wider ints, pointers, interfaces, arrays, maps, slices, funcs, chans, structs, Block) or removed, the wrong kind for the binding, " +
			"zoo types with embedded, unexported, pointer and interface fields, and 28 hostile non-struct targets (nil, non-pointers, typed nil pointers, pointers to every kind, slices of non-structs, named non-struct type matching the block type). Required: no panic; after nil, every field of every block and its non-empty name found unchanged (value and dynamic type) in the exported field the harness's own matching rule designates, nested blocks recursively; after an error a slice target deep-equals its snapshot. " +
			"distinct = hash(binding, target type); non-trivial = Bind returned (nil or error) and the post-condition was examined Also: hand-built bindings nested 10..39 levels; destinations that are already filled in (interface holding a struct by value or pointer, non-nil pointers); zoo types with embedded pointers, an embedded struct in front of tagged fields, digit/underscore names; keys containing control bytes; blocks take a named target's type name in 3 of 4 cases; 1 field value in 12 is a Go value the VM never produces (sized ints, float32, complex, named int, slices, arrays, maps, pointers, *Block, []Block, chan, structs, and an unnamed struct type with Block's underlying type); float values -0.0, NaN and -Inf compared bit for bit; pointers to binding values, typed nil ones included. Also: wide blocks (9..40 fields) nested in wide blocks, children repeating most of their parent's keys, Go field names whose case-fold partner has another UTF-8 width (KELVIN SIGN, LONG S, ANGSTROM SIGN, OHM SIGN, capital sharp s).",
		Assumptions:   []string{"when two keys of one block designate the same struct field only 'no panic' is claimed (DESIGN §6 C15)"},
		MinNontrivial: 1000,
		Run: func(c *core.Ctx) {
			n := int64(c.Pick(150000, 30000000))
			for i := int64(0); i < n; i++ {
				if !c.Mine(i) {
					continue
				}
				c.Begin(i)
				c15Case(c, i, c.Rand(i))
			}
		},
	})
}

// ---------------------------------------------------------------- C16

type c16Target struct {
	Name string
	AB   int
	Sub  struct {
		Name string
		X    int
		Y    int
	}
	S string
	F float64
}

type c16Emb struct {
	Maxconn int
	Ab      int
}

// c16Zoo: further targets every case is unmarshalled into (unnamed struct types, so that any block type fits):
// a Name field that cannot take the name, none at all, an unexported one; two fields one key may designate
// (side by side, and one of them promoted from an embedded struct); names whose case-fold partner has another width.
var c16Zoo = []func() any{
	func() any {
		return &struct {
			Name int
			AB   int
			S    string
			F    float64
		}{}
	},
	func() any {
		return &struct {
			name string
			AB   int
			S    string
			F    float64
		}{}
	},
	func() any {
		return &struct {
			AB      int
			S       string
			F       float64
			MaxConn int
		}{}
	},
	func() any {
		return &struct {
			Name    string
			MaxConn int
			Maxconn int
			AB      int
			Ab      int
			S       string
		}{}
	},
	func() any {
		return &struct {
			Name string
			c16Emb
			MaxConn int
			S       string
		}{}
	},
	func() any {
		return &struct {
			Name string
			c16Emb
			AB int `bcl:"max_conn"`
		}{}
	},
	func() any {
		return &[]struct {
			Name    any
			MaxConn int
			Maxconn int
			AB      int
			S       string
			F       float64
		}{}
	},
	func() any {
		return &struct {
			Name     string
			K        int
			Miſt     string
			MAXCONN  int
			Max_Conn int
		}{}
	},
}

// c16Case builds a case selected for order sensitivity and returns a digest
// of everything observable from one run.
func c16Source(r *rand.Rand) (src []byte, kind string) {
	if r.Intn(12) == 0 {
		// keys of one block that differ only in letter case or underscores and designate one field:
		// which value wins / which key the error names must not vary
		forms := [][]string{{"ab", "AB", "Ab", "aB"}, {"a_b", "A_B", "a_B", "A_b"}, {"s", "S"}, {"f", "F", "_f", "f_"}, {"ab", "AB", "a_b", "A_B", "ab_", "_AB"}}[r.Intn(5)]
		var b strings.Builder
		b.WriteString("def c16_target \"n\" { ")
		for _, k := range r.Perm(len(forms)) {
			switch r.Intn(4) {
			case 0:
				fmt.Fprintf(&b, "%s = \"v%d\"; ", forms[k], k)
			case 1:
				fmt.Fprintf(&b, "%s = %d.5; ", forms[k], k)
			default:
				fmt.Fprintf(&b, "%s = %d; ", forms[k], k)
			}
		}
		b.WriteString("}\nbind c16_target -> struct")
		return []byte(b.String()), "case_variant_keys"
	}
	if r.Intn(12) == 0 {
		// one key that fits two struct fields of some targets, without and with a block name (some targets
		// have no usable Name field): error or not, the outcome is the same every time
		var b strings.Builder
		b.WriteString("def c16_target ")
		if r.Intn(2) == 0 {
			fmt.Fprintf(&b, "\"n%d\" ", r.Intn(3))
		}
		b.WriteString("{ ")
		keys := []string{"max_conn", "maxconn", "MAX_CONN", "Max_Conn", "MaxConn", "Maxconn", "ab", "a_b", "Ab", "s", "f", "k", "mist", "K", "name"}
		for _, k := range r.Perm(len(keys))[:1+r.Intn(3)] {
			switch keys[k] {
			case "s", "mist":
				fmt.Fprintf(&b, "%s = \"v%d\"; ", keys[k], k)
			case "f":
				fmt.Fprintf(&b, "f = %d.25; ", k)
			default:
				fmt.Fprintf(&b, "%s = %d; ", keys[k], k)
			}
		}
		b.WriteString("}\nbind c16_target -> struct")
		return []byte(b.String()), "key_fitting_two_fields_or_unusable_name_field"
	}
	if r.Intn(14) == 0 {
		// an operator applied to a child block with several fields: the error text must not vary
		var b strings.Builder
		b.WriteString("def c16_target { def inner { ")
		for k, n := 0, 2+r.Intn(6); k < n; k++ {
			fmt.Fprintf(&b, "f%d = %d; ", k, k)
		}
		op := []string{"inner + 1", "1 - inner", "inner * 2", "inner / inner", "inner < 1", "2 > inner", "inner == 1", "1 != inner", "- inner", "+ inner", "\"s\" + inner", "inner <= inner"}[r.Intn(12)]
		fmt.Fprintf(&b, "}\n x = %s }\nbind c16_target -> struct", op)
		return []byte(b.String()), "operator_on_a_child_block"
	}
	switch r.Intn(7) {
	case 0:
		// two keys folding to one struct field, two faulty fields
		vals := r.Perm(5)
		return []byte(fmt.Sprintf("def c16_target \"n\" { a_b = %d; ab = %d; A_B = %d; s = \"x\"; f = 1.5 }\nbind c16_target -> struct", vals[0], vals[1], vals[2])), "colliding_keys"
	case 1:
		return []byte(fmt.Sprintf("def c16_target { def sub \"a\" { x = %d } def sub \"b\" { x = %d; y = 2 } def sub \"c\" { y = %d } }\nbind c16_target -> struct", r.Intn(9), r.Intn(9), r.Intn(9))), "named_children_into_one_field"
	case 2:
		return []byte(fmt.Sprintf("def c16_target { zz = 1; s = %d; f = \"str\"; qq = 2; ab = \"no\"; ww = true }\nbind c16_target -> struct", r.Intn(9))), "several_faulty_fields"
	case 3:
		var b strings.Builder
		for k, n := 0, 20+r.Intn(60); k < n; k++ {
			fmt.Fprintf(&b, "def t%d \"n%d\" { k%d = %d; s = \"v%d\"; f%d = %d.5 }\n", k%4, k, k, k, k, k%7, k)
		}
		b.WriteString("bind t1:all -> slice\n")
		return []byte(b.String()), "many_constants_and_identifiers"
	case 4:
		var b strings.Builder
		for k, n := 0, 3+r.Intn(10); k < n; k++ {
			b.WriteString([]string{"print )\n", "var = 1\n", "def { }\n", "print 1 +\n", "var x x\n", "print 1\n", "eval (\n"}[r.Intn(7)])
		}
		return []byte(b.String()), "several_diagnostics"
	}
	if r.Intn(8) == 0 {
		// many blocks bound to a slice, each with a fault of its own: which error is returned?
		var b strings.Builder
		for k, n := 0, 40+r.Intn(60); k < n; k++ {
			switch r.Intn(3) {
			case 0:
				fmt.Fprintf(&b, "def c16_target \"n%d\" { unknown_%d = %d }\n", k, k, k)
			case 1:
				fmt.Fprintf(&b, "def c16_target \"n%d\" { ab = \"s%d\" }\n", k, k)
			default:
				fmt.Fprintf(&b, "def c16_target \"n%d\" { s = %d }\n", k, k)
			}
		}
		b.WriteString("bind c16_target:all -> slice\n")
		return []byte(b.String()), "many_faulty_blocks_to_slice"
	}
	cfg := randProfile(r)
	g := lang.NewGen(r, cfg)
	p := g.Program()
	src = lang.Layout(lang.Flatten(p), calmLayout(r), r).Src
	return src, "generated"
}

// two distinct types with the same printed name (declared locally in two functions)
func c16LocalA() any {
	type cfg struct {
		Name string
		A    int `bcl:"x"`
		B    int `bcl:"y"`
	}
	return &cfg{}
}

func c16LocalB() any {
	type cfg struct {
		Name string
		A    int `bcl:"y"`
		B    int `bcl:"x"`
	}
	return &cfg{}
}

// c16SelfInconsistent is set by c16Digest when one Prog behaves differently from one use to the next.
var c16SelfInconsistent string

// c16RedirectName returns the dump with the name operand of one DEFBLOCK / GETFIELD / SETFIELD / BIND
// instruction redirected to another constant (same operand width), or nil.
func c16RedirectName(dump []byte, p *bcl.Prog) []byte {
	f, err := bc.Decode(dump)
	if err != nil || len(f.Constants) < 2 || len(f.Constants) > 240 {
		return nil
	}
	ins, err := bc.Instructions(f.Code)
	if err != nil {
		return nil
	}
	for _, in := range ins {
		switch in.Op {
		case bc.DEFBLOCK, bc.GETFIELD, bc.SETFIELD, bc.BIND:
			// the nearest constant of another kind than string, else the next one
			to := -1
			for k := range f.Constants {
				if _, isStr := f.Constants[k].(string); !isStr {
					to = k
					break
				}
			}
			if to < 0 {
				to = (in.A + 1) % len(f.Constants)
			}
			g := *f
			g.Code = append([]byte{}, f.Code...)
			g.Code[in.Off+1] = byte(to)
			return bc.Encode(&g)
		}
	}
	return nil
}

var c16BufferReuse string // set by c16Digest when the outcome depends on the caller's buffer after the call

var c16Order = 0 // set from VERIF_C16_ORDER in fresh processes: the order of independent calls must not matter
var c16Runs int64

// c16FileDigest: the file variants under a scripted reader with a read error
// behind a lexical failure, with seeded perturbation that differs from run to run.
func c16FileDigest(src []byte) string {
	c16Runs++
	data := append([]byte("print 1 @\n"), src...)
	var b strings.Builder
	for variant := 0; variant < 2; variant++ {
		steps := []mon.Step{{N: 12 + variant*30}, {N: 40, Err: mon.ErrInjected}}
		if variant == 1 {
			data = src
			steps = []mon.Step{{N: 1 + len(src)/3}, {N: 1 + len(src)/3, Err: mon.ErrInjected}}
		}
		sc := mon.NewScript("c16.bcl", data, steps)
		lg := &mon.LockedWriter{}
		pt := mon.NewPerturb(c16Runs*7919+int64(variant), int(c16Runs))
		remove := pt.Install()
		fp, err := bcl.ParseFile(sc, bcl.OptLogger(lg), bcl.OptOutput(&mon.LockedWriter{}))
		mon.WaitQuiescent(14)
		remove()
		fmt.Fprintf(&b, "file%d.err=%v,prog-nil=%v,log=%x|", variant, err, fp == nil, core.Hash(lg.String()))
	}
	return b.String()
}

func c16Digest(src []byte) string {
	var b strings.Builder
	var lg, out bytes.Buffer
	p, err := bcl.Parse(src, "c16", bcl.OptLogger(&lg), bcl.OptOutput(&out))
	fmt.Fprintf(&b, "parse.err=%v|log=%s|", err, lg.String())
	if err == nil {
		d, derr, pan, _ := dumpOf(p)
		fmt.Fprintf(&b, "dump=%x,%v,%s|", core.Hash(d), derr, pan)
		bl, bi, xerr := bcl.Execute(p)
		fmt.Fprintf(&b, "exec=%s|%s|%v|out=%s|log=%s|", canonBlocks(bl), canonBinding(bi), xerr, out.String(), lg.String())
		d2, _, _, _ := dumpOf(p)
		fmt.Fprintf(&b, "dump-after-exec-same=%v|", bytes.Equal(d, d2))
		if !bytes.Equal(d, d2) && derr == nil && pan == "" {
			c16SelfInconsistent = "the Prog dumps differently after it was executed"
		}
		// the same dump with one name operand redirected to another constant of the pool (a file someone edited):
		// whatever that program does, it does it again the second time and the Prog stays what it was
		if derr == nil && pan == "" {
			if patched := c16RedirectName(d, p); patched != nil {
				var o2, l2 bytes.Buffer
				var q *bcl.Prog
				var lerr error
				lpan, _ := protect(func() {
					q, lerr = bcl.LoadProg(bytes.NewReader(patched), "edited", bcl.OptOutput(&o2), bcl.OptLogger(&l2))
				})
				fmt.Fprintf(&b, "edited-dump-load=%v,%s|", lerr, lpan)
				if lerr == nil && lpan == "" {
					before, _, _, _ := dumpOf(q)
					var outcomes [2]string
					for k := 0; k < 2; k++ {
						o2.Reset()
						var bl2 []bcl.Block
						var bi2 bcl.Binding
						var e2 error
						xpan, _ := protect(func() { bl2, bi2, e2 = bcl.Execute(q) })
						outcomes[k] = fmt.Sprintf("%s|%s|%v|%s|%s", canonBlocks(bl2), canonBinding(bi2), e2, o2.String(), xpan)
					}
					after, _, _, _ := dumpOf(q)
					fmt.Fprintf(&b, "edited-dump-exec=%x|", core.Hash(outcomes[0]))
					if outcomes[0] != outcomes[1] {
						c16SelfInconsistent = "a loaded Prog (one name operand redirected) gives " + core.Trunc(outcomes[0], 200) + " when executed and " + core.Trunc(outcomes[1], 200) + " when executed again"
					} else if !bytes.Equal(before, after) {
						c16SelfInconsistent = "a loaded Prog (one name operand redirected) dumps differently after it was executed"
					}
				}
			}
		}
		// the caller reuses its input buffer after Parse returned: the Prog must not notice
		in := append([]byte{}, src...)
		var lgB, outB bytes.Buffer
		if pb, errB := bcl.Parse(in, "c16", bcl.OptLogger(&lgB), bcl.OptOutput(&outB)); errB == nil {
			for k := range in {
				in[k] = '#'
			}
			dB, _, _, _ := dumpOf(pb)
			blB, biB, xB := bcl.Execute(pb)
			if !bytes.Equal(d, dB) || canonBlocks(blB) != canonBlocks(bl) || canonBinding(biB) != canonBinding(bi) || fmt.Sprint(xB) != fmt.Sprint(xerr) {
				c16BufferReuse = "a Prog parsed from a buffer that the caller overwrote afterwards differs from one parsed from an untouched buffer: dump equal=" + fmt.Sprint(bytes.Equal(d, dB))
			}
		}
		// a dump into a failing writer must not influence the next dump
		fw := &failingWriter{limit: len(d) / 2}
		pan2, _ := protect(func() { p.Dump(fw) })
		d3, _, _, _ := dumpOf(p)
		fmt.Fprintf(&b, "dump-after-failed-dump-same=%v%s|", bytes.Equal(d, d3), pan2)
	}
	r := InterpretReused(src)
	fmt.Fprintf(&b, "interp=%s|%s|%v|%s|%s|%s|", canonBlocks(r.Blocks), canonBinding(r.Binding), r.Err, r.Out, r.Log, r.Panic)
	rs := Interpret(src, bcl.OptStats(true), bcl.OptDisasm(true))
	fmt.Fprintf(&b, "interp+stats+disasm=%v|%x|%s|", rs.Err, core.Hash(rs.Out), rs.Panic)
	var t c16Target
	var uerr error
	pan, _ := protect(func() { uerr = bcl.Unmarshal(src, &t, bcl.OptLogger(&lg), bcl.OptOutput(&out)) })
	fmt.Fprintf(&b, "unmarshal=%+v|%v|%s|", t, uerr, pan)
	var ts []c16Target
	pan, _ = protect(func() { uerr = bcl.Unmarshal(src, &ts, bcl.OptLogger(&lg), bcl.OptOutput(&out)) })
	fmt.Fprintf(&b, "unmarshal-slice=%+v|%v|%s|", ts, uerr, pan)
	if r.Binding != nil && r.Panic == "" {
		for k, mk := range c16Zoo {
			zt := mk()
			pan, _ = protect(func() { uerr = bcl.Bind(zt, r.Binding) })
			fmt.Fprintf(&b, "zoo%d=%+v|%v|%s|", k, reflect.ValueOf(zt).Elem().Interface(), uerr, pan)
		}
	}
	// two independent calls with same-named types, in either order
	cfgSrc := []byte("def cfg \"n\" { x = 1; y = 2 }\nbind cfg -> struct")
	res := map[int]string{}
	for k := 0; k < 2; k++ {
		which := (k + c16Order) % 2
		t := c16LocalA()
		if which == 1 {
			t = c16LocalB()
		}
		var e error
		pan, _ = protect(func() { e = bcl.Unmarshal(cfgSrc, t, bcl.OptLogger(&lg), bcl.OptOutput(&out)) })
		res[which] = fmt.Sprintf("%+v|%v|%s", reflect.ValueOf(t).Elem().Interface(), e, pan)
	}
	fmt.Fprintf(&b, "same-named-types=%s;%s|", res[0], res[1])
	b.WriteString(c16FileDigest(src))
	return b.String()
}

// C16Digests prints one digest hash per case (used by the fresh-process runs).
func C16Digests(seed int64, list string) {
	if os.Getenv("VERIF_C16_ORDER") == "1" {
		c16Order = 1
	}
	for _, f := range strings.Split(list, ",") {
		var i int64
		if _, err := fmt.Sscan(f, &i); err != nil {
			continue
		}
		r := rand.New(rand.NewSource(core.Mix(seed, i)))
		src, _ := c16Source(r)
		if !vetMemory(src) {
			fmt.Printf("%d skip\n", i)
			continue
		}
		fmt.Printf("%d %016x\n", i, core.Hash(c16Digest(src)))
	}
}

func init() {
	core.Register(&core.Check{
		ID:    "C16",
		Level: "exploration",
		Rule: "repetition monitor: each case (source + targets) is run R times in one process (R = 30 quick / 100 thorough; Go randomises map iteration per range statement, so repetition exercises iteration order) and once in fresh processes with GOMAXPROCS 1, 2 and 16 (different hash seeds); the digest of everything observable (Dump hash, diagnostics, output, blocks, binding, Unmarshal target and error text for a struct and a slice target, dump before/after Execute) must be identical. " +
			"History variants: A, B, A (the second A equals the first); results of a run are mutated before the next run of the same Prog. Cases are selected for order sensitivity: several keys folding to one struct field, several named children of one type into one field, several faulty fields at once, many constants and identifiers, several diagnostics, plus generated programs. " +
			"distinct = hash of source; non-trivial = at least 2 runs were compared The digest also contains: a run with statistics and disassembly; Dump into a failing writer followed by another Dump; ParseFile under a scripted reader with a read error behind a lexical failure and varying perturbation (error, log, whether a Prog came back); two same-named local struct types unmarshalled in one order here and the other order in one fresh process. A Prog parsed from a buffer that the caller overwrites afterwards must equal one parsed from an untouched buffer. Source kinds also: 40..100 faulty blocks bound to a slice. Also: blocks whose keys differ only in letter case or underscores and designate one struct field (which value wins and which key an error names must not vary). Also: operators applied to a child block with 2..7 fields (the error text must not vary); every accepted program's dump is also loaded with one name operand redirected to another constant and executed twice: both executions give the same outcome (whatever it is) and the Prog dumps the same before and after. Every binding is also bound into eight further target shapes (Name field of the wrong type / unexported / missing, two fields one key fits, one of them promoted from an embedded struct, fold-partner names); sources whose keys fit two fields.",
		Assumptions:   []string{"the digest renders maps with sorted keys, so only the library's own order dependence can show"},
		MinNontrivial: 300,
		Run: func(c *core.Ctx) {
			n := int64(c.Pick(2400, 12000))
			R := c.Pick(30, 100)
			exe, _ := os.Executable()
			type pending struct {
				i      int64
				digest string
			}
			var batch []pending
			flush := func() {
				if len(batch) == 0 {
					return
				}
				var idx []string
				for _, pd := range batch {
					idx = append(idx, fmt.Sprint(pd.i))
				}
				for _, procs := range []string{"1", "2", "16"} {
					cmd := exec.Command(exe, "c16digest", fmt.Sprint(c.Seed), strings.Join(idx, ","))
					cmd.Env = append(os.Environ(), "GOMAXPROCS="+procs)
					if procs == "2" {
						cmd.Env = append(cmd.Env, "VERIF_C16_ORDER=1") // independent calls in the other order
					}
					outb, err := cmd.Output()
					if err != nil {
						c.Inconclusive("fresh process failed: " + err.Error())
						continue
					}
					got := map[int64]string{}
					for _, ln := range strings.Split(string(outb), "\n") {
						var k int64
						var h string
						if _, e := fmt.Sscanf(ln, "%d %s", &k, &h); e == nil {
							got[k] = h
						}
					}
					for _, pd := range batch {
						c.Eval(1)
						if h, ok := got[pd.i]; ok && h != "skip" && h != fmt.Sprintf("%016x", core.Hash(pd.digest)) {
							c.Violation("differs-in-fresh-process", fmt.Sprintf("case %d gives a different outcome in a fresh process with GOMAXPROCS=%s", pd.i, procs),
								map[string]any{"digest_here": core.Trunc(pd.digest, 3000)})
							return
						}
					}
					c.Count("fresh_process_runs_GOMAXPROCS_"+procs, int64(len(batch)))
				}
				batch = batch[:0]
			}
			var prevSrc []byte
			var prevDigest string
			for i := int64(0); i < n; i++ {
				if !c.Mine(i) {
					continue
				}
				r := c.Rand(i)
				src, kind := c16Source(r)
				if !vetMemory(src) {
					continue
				}
				c.Begin(i)
				c.NoteInput("src", src)
				c16BufferReuse, c16SelfInconsistent = "", ""
				first := c16Digest(src)
				c.Eval(1)
				if c16SelfInconsistent != "" {
					c.Violation("same-prog-differs-from-use-to-use", c16SelfInconsistent, map[string]any{"source": core.Trunc(string(src), 1500)})
					continue
				}
				if c16BufferReuse != "" {
					c.Violation("depends-on-callers-buffer", c16BufferReuse, map[string]any{"source": core.Trunc(string(src), 1500)})
					continue
				}
				ok := true
				for k := 1; k < R && ok; k++ {
					d := c16Digest(src)
					c.Eval(1)
					if d != first {
						c.Violation("nondeterministic:"+kind, fmt.Sprintf("run %d of the same calls differs from run 1: %s", k+1, firstDiff(first, d)),
							map[string]any{"source": core.Trunc(string(src), 2000), "run1": core.Trunc(first, 2500), "runK": core.Trunc(d, 2500)})
						ok = false
					}
				}
				if !ok {
					continue
				}
				// history: A, B, A
				if prevSrc != nil {
					if d := c16Digest(prevSrc); d != prevDigest {
						c.Violation("depends-on-earlier-calls", "a case run again after another case gives a different outcome: "+firstDiff(prevDigest, d),
							map[string]any{"source": core.Trunc(string(prevSrc), 2000), "between": core.Trunc(string(src), 1000)})
						continue
					}
					c.Count("history_A_B_A_compared", 1)
				}
				prevSrc, prevDigest = src, first
				// results of run 1 mutated before run 2 of the same Prog
				var lg, out bytes.Buffer
				if p, err := bcl.Parse(src, "m", bcl.OptLogger(&lg), bcl.OptOutput(&out)); err == nil {
					b1, bi1, _ := bcl.Execute(p)
					c1, cb1 := canonBlocks(b1), canonBinding(bi1)
					for _, b := range b1 {
						for k := range b.Fields {
							b.Fields[k] = "mutated"
						}
						b.Fields["injected"] = 1
					}
					b2, bi2, _ := bcl.Execute(p)
					if canonBlocks(b2) != c1 || canonBinding(bi2) != cb1 {
						c.Violation("results-aliased-between-runs", "mutating the blocks returned by one Execute changed the result of the next Execute of the same Prog", map[string]any{"source": core.Trunc(string(src), 2000)})
						continue
					}
					c.Count("mutated_results_then_reexecuted", 1)
				}
				c.Count("cases_"+kind, 1)
				c.Count("in_process_repetitions", int64(R))
				c.Nontrivial(core.Hash(src))
				batch = append(batch, pending{i, first})
				if len(batch) >= 40 {
					flush()
				}
				if c.WantSample() && len(src) < 300 {
					c.Sample(map[string]any{"kind": kind, "source": string(src), "repetitions": R, "fresh_processes": "GOMAXPROCS=1,2,16"})
				}
			}
			flush()
		},
	})
}
