package checks

import (
	"bytes"
	"context"
	"errors"
	"fmt"
	"io"
	"io/fs"
	"math/rand"
	"os"
	"path/filepath"
	"sort"
	"strings"
	"sync"
	"syscall"

	"github.com/wkhere/bcl"

	"verif/internal/core"
	"verif/internal/mon"
)

// ---------------------------------------------------------------- C11

type c11Input struct {
	class string
	data  []byte
	mark  int // offset of the last byte the lexer needs to see to fail; -1 if no lexical failure
}

func c11Valid(n int) []byte {
	var b bytes.Buffer
	b.WriteString("var base = 1\n")
	k := 0
	for b.Len() < n {
		fmt.Fprintf(&b, "def blk \"n%d\" { f = base + %d; g = \"v%d\" } # filler filler filler\n", k, k, k)
		k++
	}
	b.WriteString("bind blk:last -> struct\n")
	return b.Bytes()
}

func c11Inputs() []c11Input {
	big := c11Valid(9500)
	at := func(data []byte, off int, ins string) []byte {
		return append(append(append([]byte{}, data[:off]...), ins...), data[off:]...)
	}
	nl := func(data []byte, near int) int { // a statement boundary at or after near
		for i := near; i < len(data); i++ {
			if data[i] == '\n' {
				return i + 1
			}
		}
		return len(data)
	}
	l := []c11Input{
		{"empty", nil, -1},
		{"valid_small", c11Valid(100), -1},
		{"valid_3_pages", big, -1},
		{"syntax_error_early", at(big, nl(big, 0), "print )\n"), -1},
		{"syntax_error_late", at(big, nl(big, 9000), "print )\nvar = 1\n"), -1},
	}
	// dozens of diagnostics with plenty of input after them
	{
		var b bytes.Buffer
		for k := 0; k < 60; k++ {
			fmt.Fprintf(&b, "print %d +\nvar = %d\nprint %d\n", k, k, k)
		}
		b.Write(c11Valid(3000))
		l = append(l, c11Input{"many_syntax_errors", b.Bytes(), -1})
	}
	e := nl(big, 20)
	l = append(l, c11Input{"lexical_failure_early", at(big, e, "print @\n"), e + 6})
	// every lexical-failure kind early in a long input (what follows would lex fine)
	for k, bad := range []string{"print \"abc\\\ndef\" + 1\n", "print \"abc\nprint 2\n", "print 1x\n", "print 1.\n", "print 1e+\n", "print ab\"\n", "print \"s\"x\n", "print 1 ! 2\n", "print 0x1g\n", "print é\n"} {
		e := nl(big, 20+k)
		mark := e + len(bad) - 1
		if k == 0 {
			mark = e + len("print \"abc\\\n") - 1
		}
		l = append(l, c11Input{fmt.Sprintf("lexical_failure_kind_%d", k), at(big, e, bad), mark})
	}
	e = nl(big, 9000)
	l = append(l, c11Input{"lexical_failure_late", at(big, e, "print \"unterminated\n"), e + len("print \"unterminated")})
	// lexical failure exactly at the start of the second page
	{
		d := c11Valid(9500)
		b := nl(d, 3900)
		pad := 4096 - b
		ins := "#" + strings.Repeat(".", pad-2) + "\n" + "@ print 1\n"
		d = at(d, b, ins)
		l = append(l, c11Input{"lexical_failure_at_page_start", d, 4096})
	}
	// failure that needs a lookahead byte from the next page: '1' is the last byte of page 1, 'x' the first of page 2
	{
		d := c11Valid(9500)
		b := nl(d, 3900)
		stmt := "print 1"
		pad := 4096 - b - len(stmt)
		ins := "#" + strings.Repeat(".", pad-2) + "\n" + stmt + "x\n"
		d = at(d, b, ins)
		l = append(l, c11Input{"lexical_failure_lookahead_across_page", d, 4096})
	}
	{
		d := c11Valid(9500)
		b := nl(d, 3900)
		stmt := "print 1 !"
		pad := 4096 - b - len(stmt)
		ins := "#" + strings.Repeat(".", pad-2) + "\n" + stmt + " 2\n"
		d = at(d, b, ins)
		l = append(l, c11Input{"lexical_failure_bang_across_page", d, 4096})
	}
	// input that ends inside a multi-byte character: of a final comment, of a string, of a stray character
	l = append(l,
		c11Input{"ends_inside_character_of_final_comment", []byte("print 1 # caf\xc3"), -1},
		c11Input{"ends_inside_character_of_final_comment_3_pages", append(append([]byte{}, big...), "# \xe6\xbc\xa2\xf0\x9f\x98"...), -1},
		c11Input{"ends_inside_character_of_string", append(append([]byte{}, c11Valid(100)...), "print \"caf\xc3"...), -1},
		c11Input{"ends_inside_stray_character", append(append([]byte{}, c11Valid(100)...), "print 1 \xe6\xbc"...), -1})
	// a file of another kind: the bytecode dump of the valid program, whole and cut inside its header
	if p, err := bcl.Parse(big, "in.bcl"); err == nil {
		var b bytes.Buffer
		if p.Dump(&b) == nil {
			d := b.Bytes()
			l = append(l, c11Input{"bytecode_dump_as_text", append([]byte{}, d...), 0}, c11Input{"bytecode_dump_header_as_text", append([]byte{}, d[:5]...), 0},
				c11Input{"shebang_line_then_bytecode_dump", append([]byte("#!/usr/bin/env bcl\n"), d...), 19})
		}
	}
	return l
}

const c11StepKinds = 8

func c11Step(kind int, r *rand.Rand) mon.Step {
	switch kind {
	case 0:
		return mon.Step{N: -1} // full request
	case 1:
		return mon.Step{N: 1 + r.Intn(300)} // short read
	case 2:
		return mon.Step{N: 1}
	case 3:
		return mon.Step{N: 0} // zero bytes, no error
	case 4:
		return mon.Step{N: -1, Err: io.EOF} // data together with EOF
	case 5:
		return mon.Step{N: 1 + r.Intn(300), Err: mon.ErrInjected} // data together with an error
	case 6:
		return mon.Step{N: 0, Err: mon.ErrInjected}
	}
	return mon.Step{N: 0, Err: io.EOF}
}

// c11TempErr is what a network or pipe reader returns for a condition that may pass.
type c11TempErr struct{}

func (c11TempErr) Error() string   { return "resource temporarily unavailable (injected)" }
func (c11TempErr) Temporary() bool { return true }
func (c11TempErr) Timeout() bool   { return true }

// c11ErrZoo: read errors as real readers return them (the library must treat every one of them as the end of
// reading: return it, close the input once, stop)
var c11ErrZoo = []error{syscall.EINTR, syscall.EAGAIN, &fs.PathError{Op: "read", Path: "c11.bcl", Err: os.ErrClosed}, os.ErrClosed, io.ErrUnexpectedEOF,
	io.ErrClosedPipe, os.ErrDeadlineExceeded, context.Canceled, io.ErrNoProgress, &fs.PathError{Op: "read", Path: "c11.bcl", Err: syscall.EINTR}, c11TempErr{},
	fmt.Errorf("read c11.bcl: %w", syscall.EAGAIN), syscall.EIO, io.ErrShortBuffer, fmt.Errorf("wrapped: %w", fs.ErrClosed)}

type c11Inner struct{ X int }

// c11Target has struct-typed fields too (a nested block's destination, an embedded struct).
type c11Target struct {
	Name string
	F    int
	G    string
	Sub  struct {
		Name string
		Y    float64
	}
	Inner c11Inner
	c11Embedded
}

type c11Embedded struct{ Extra string }

func c11Run(c *core.Ctx, i int64, in c11Input, kinds []int, r *rand.Rand) {
	steps := make([]mon.Step, len(kinds))
	hasErrStep := false
	var zooErr error
	for k, kd := range kinds {
		steps[k] = c11Step(kd, r)
		if steps[k].Err == mon.ErrInjected && i%4 == 1 {
			steps[k].Err = mon.ErrWrappedEOF // a read error whose chain contains io.EOF is still a read error
		}
		if steps[k].Err == mon.ErrInjected && i%4 >= 2 {
			zooErr = c11ErrZoo[int(i/4)%len(c11ErrZoo)]
			steps[k].Err = zooErr
		}
		steps[k].Delay = []int{0, 0, 1, 2, 3}[r.Intn(5)]
		if steps[k].Err == mon.ErrInjected {
			hasErrStep = true
		}
	}
	_ = hasErrStep
	sc := mon.NewScript("c11.bcl", in.data, steps)
	sc.CloseDelay = []int{0, 0, 2, 3}[r.Intn(4)]
	sc.NonSticky = zooErr != nil && i%8 < 6 // the reader would go on delivering after the error, if asked
	if i%9 == 4 {
		sc.CloseErr = mon.ErrClose // Close itself fails: still called once, nothing left behind
	}
	sc.MarkOffset = in.mark
	lg := &mon.LockedWriter{DelayClass: []int{0, 0, 1, 2}[r.Intn(4)]}
	out := &mon.LockedWriter{}
	pt := mon.NewPerturb(core.Mix(c.Seed, i), int(i))
	if i%7 == 0 {
		pt.On = false // also runs without perturbation
	}
	remove := pt.Install()
	api := int(i % 3)
	var err error
	apiName := []string{"ParseFile", "InterpretFile", "UnmarshalFile"}[api]
	switch api {
	case 0:
		var p *bcl.Prog
		p, err = bcl.ParseFile(sc, bcl.OptLogger(lg), bcl.OptOutput(out))
		if err == nil && p == nil {
			c.Violation("no-result-no-error", "ParseFile returned neither program nor error", nil)
		}
	case 1:
		_, _, err = bcl.InterpretFile(sc, bcl.OptLogger(lg), bcl.OptOutput(out))
	case 2:
		var t c11Target
		// the target may be unusable: the input must be read (or not) and closed all the same
		var target any = &t
		switch i % 11 {
		case 3:
			target = t
		case 5:
			target = nil
		case 8:
			target = []c11Target{}
		case 9:
			target = (*c11Target)(nil)
		}
		pan, stack := protect(func() { err = bcl.UnmarshalFile(sc, target, bcl.OptLogger(lg), bcl.OptOutput(out)) })
		if pan != "" {
			c.Violation(panicSig(pan, stack), "UnmarshalFile panicked: "+pan, nil)
		}
		if i%11 == 3 || i%11 == 5 || i%11 == 8 || i%11 == 9 {
			c.Count("runs_UnmarshalFile_with_unusable_target", 1)
		}
	}
	c.Eval(1)
	left, dump, polls := mon.WaitQuiescent(14)
	remove()
	c.Max("max_polls_until_quiescent", int64(polls))
	det := func() map[string]any {
		return map[string]any{"api": apiName, "input_class": in.class, "step_kinds": fmt.Sprint(kinds), "reads": sc.ReadLog(), "error": fmt.Sprint(err),
			"log": core.Trunc(lg.String(), 400), "interleaving": core.Trunc(pt.Signature(), 600)}
	}
	sig := func(s string) string { return s + ":" + apiName }
	if left > 0 {
		// only a goroutine that cannot make progress is a leak; one that is merely slow is inconclusive
		gs := core.LibGoroutines(core.ParseDump(dump))
		blocked := true
		for _, g := range gs {
			if !(strings.HasPrefix(g.State, "chan ") || g.State == "select") {
				blocked = false
			}
		}
		if blocked {
			d := det()
			d["goroutines"] = core.Trunc(dump, 3000)
			c.Violation(sig("goroutine-leak"), fmt.Sprintf("%d goroutine(s) of the library still blocked on a channel after the call returned and %d polls", left, polls), d)
			c.StopWorker("leaked goroutines stay in this process and would be seen again after every later call")
			return
		}
		c.Inconclusive("library goroutine still runnable after the polls")
		return
	}
	if n := sc.Closes.Load(); n != 1 {
		c.Violation(sig("close-count"), fmt.Sprintf("Close called %d times", n), det())
		return
	}
	if n := sc.ReadsAfterClose.Load(); n != 0 {
		c.Violation(sig("read-after-close"), fmt.Sprintf("%d Read calls after Close", n), det())
		return
	}
	if n := sc.ClosedDuringRead.Load(); n != 0 {
		c.Violation(sig("close-during-read"), "Close was called while a Read of the same input was still in progress (the input's methods are used from two goroutines at once)", det())
		return
	}
	delivered := sc.Delivered()
	if in.mark >= 0 && len(delivered) > in.mark {
		c.Count("runs_with_lexical_failure_delivered", 1)
		if n := sc.ReadsAfterMark.Load(); n > 4 {
			c.Violation(sig("reads-after-lexical-failure"), fmt.Sprintf("%d data reads started after the failing byte had been delivered (%d bytes of %d delivered in total)", n, len(delivered), len(in.data)), det())
			return
		}
		c.Max("max_reads_after_lexical_failure", sc.ReadsAfterMark.Load())
		if err == nil {
			c.Violation(sig("lexical-failure-not-reported"), "input with a lexical failure was delivered but the call returned no error", det())
			return
		}
	}
	// bounded logical progress
	if n, bound := sc.Reads.Load(), int64(len(steps)+len(in.data)/4096+3); n > bound {
		c.Violation(sig("read-bound"), fmt.Sprintf("%d Read calls, bound %d", n, bound), det())
		return
	}
	// a read error is returned in preference to parse errors (when the reader got to deliver it)
	rl := sc.ReadLog()
	if strings.Contains(rl, mon.ErrWrappedEOF.Error()) {
		c.Count("runs_with_wrapped_eof_read_error_delivered", 1)
		if err != mon.ErrWrappedEOF {
			c.Violation(sig("read-error-lost"), fmt.Sprintf("the reader returned %q but the call returned %v", mon.ErrWrappedEOF, err), det())
			return
		}
	}
	if zooErr != nil && strings.Contains(rl, zooErr.Error()) {
		c.Count("runs_with_a_real_world_read_error_delivered", 1)
		c.SetAdd("read_error_values", fmt.Sprintf("%T:%v", zooErr, zooErr))
		if !errors.Is(err, zooErr) {
			c.Violation(sig("read-error-lost"), fmt.Sprintf("the reader returned %q (%T) but the call returned %v", zooErr, zooErr, err), det())
			return
		}
	}
	if strings.Contains(rl, mon.ErrInjected.Error()) {
		c.Count("runs_with_read_error_delivered", 1)
		if !errors.Is(err, mon.ErrInjected) {
			c.Violation(sig("read-error-lost"), fmt.Sprintf("the reader returned %q but the call returned %v", mon.ErrInjected, err), det())
			return
		}
	}
	c.Count("runs_"+apiName, 1)
	c.Count("runs_input_"+in.class, 1)
	isig := pt.Signature()
	c.SetAdd("interleaving_signatures", fmt.Sprintf("%016x", core.Hash(isig)))
	c.Nontrivial(core.Hash(in.class, fmt.Sprint(kinds), apiName, isig))
	if c.WantSample() && len(kinds) >= 3 {
		c.Sample(map[string]any{"api": apiName, "input_class": in.class, "reads": rl, "closes": sc.Closes.Load(), "error": fmt.Sprint(err), "interleaving": core.Trunc(isig, 200)})
	}
}

func init() {
	core.Register(&core.Check{
		ID:    "C11",
		Level: "exploration",
		Rule: "resource/termination monitor on scripted readers: ALL sequences of up to 5 steps over 8 step kinds {full read, short read, 1 byte, 0 bytes, data+EOF, data+error, error, EOF} (37448 scripts, each paired round-robin with one of 10 input classes: empty, valid 1 page / 3 pages, syntax error early/late, lexical failure early / late / at a page start / needing a lookahead byte from the next page) plus random longer scripts, " +
			"with delays inside Read, Close and the log writer and seeded perturbation at the pipeline's suspension points (verifPoint hook), through ParseFile, InterpretFile and UnmarshalFile. Monitored: the call returns (goroutine-dump deadlock identification, per-case watchdog), Close count == 1 after quiescence, no Read after Close, " +
			"<= 4 data reads after the failing byte was delivered however much input remains, Read calls <= steps + pages + 3, no library goroutine left blocked after the call, a delivered read error is returned (errors.Is). " +
			"distinct = hash(input class, script, API, interleaving signature); non-trivial = the call returned and all counters were examined Input classes now also: 120 diagnostics followed by 3 kB of text, and one input per lexical-failure kind early in a long input. UnmarshalFile also gets unusable targets (nil, by value, nil pointer, slice); Close may return an error; read errors may wrap io.EOF; Close must not arrive while a Read is in progress; UnmarshalFile's target has struct-typed fields (nested, named and embedded); inputs ending inside a multi-byte character (of a final comment, a string, a stray character); the bytecode dump of a program given as text (whole, header only, after a shebang line). Half of the injected read errors are values real readers return (EINTR, EAGAIN, os.ErrClosed bare / wrapped / in a PathError, timeouts with Temporary(), io.ErrUnexpectedEOF, context.Canceled, EIO ...), mostly from readers that would go on delivering if asked again.",
		Assumptions:   []string{"perturbation only delays at real suspension points; it cannot produce schedules the program cannot have", "in the thorough tier the workload also runs under the race detector build"},
		MinNontrivial: 1000,
		RaceAlso:      func(tier string) bool { return tier == "thorough" },
		Run: func(c *core.Ctx) {
			inputs := c11Inputs()
			var i int64
			maxLen := c.Pick(4, 5)
			if c.Quick() {
				// quick: all scripts up to length 4 (4680) and a fixed sample of the length-5 ones
			}
			var kinds []int
			var gen func(depth int)
			gen = func(depth int) {
				if len(kinds) > 0 {
					if c.Mine(i) {
						c.Begin(i)
						r := c.Rand(i)
						c11Run(c, i, inputs[int(i)%len(inputs)], append([]int{}, kinds...), r)
					}
					i++
					// exhaustive scripts also paired with a second input class
					if c.Mine(i) {
						c.Begin(i)
						r := c.Rand(i)
						c11Run(c, i, inputs[int(i*7+3)%len(inputs)], append([]int{}, kinds...), r)
					}
					i++
				}
				if depth == maxLen {
					return
				}
				for k := 0; k < c11StepKinds; k++ {
					kinds = append(kinds, k)
					gen(depth + 1)
					kinds = kinds[:len(kinds)-1]
				}
			}
			gen(0)
			n := int64(c.Pick(30000, 1200000))
			base := i
			for k := int64(0); k < n; k++ {
				i := base + k
				if !c.Mine(i) {
					continue
				}
				r := c.Rand(i)
				m := 1 + r.Intn(12)
				ks := make([]int, m)
				for j := range ks {
					// mostly data-delivering steps so that long inputs get through
					ks[j] = []int{0, 0, 1, 1, 1, 2, 3, 4, 5, 6, 7, 1}[r.Intn(12)]
				}
				c.Begin(i)
				c11Run(c, i, inputs[r.Intn(len(inputs))], ks, r)
			}
		},
	})
}

// ---------------------------------------------------------------- C12

func c12ManyErrors(r *rand.Rand, lines int) []byte {
	var b bytes.Buffer
	for k := 0; k < lines; k++ {
		switch r.Intn(6) {
		case 0:
			fmt.Fprintf(&b, "print %d +\n", k)
		case 1:
			fmt.Fprintf(&b, "var = %d\n", k)
		case 2:
			fmt.Fprintf(&b, "print )\n")
		case 3:
			fmt.Fprintf(&b, "def { x = %d }\n", k)
		default:
			fmt.Fprintf(&b, "print %d\n", k)
		}
	}
	return b.Bytes()
}

// overlapped tells whether, in the recorded point sequence, the lexer updated
// the line table after the parser had started formatting a diagnostic and
// before it formatted another one: both goroutines used the table in the same window.
func overlapped(ev []uint8) bool {
	seenDiag := false
	seenUpdAfterDiag := false
	for _, e := range ev {
		switch e {
		case bcl.VerifPtParseDiagnostic:
			if seenUpdAfterDiag {
				return true
			}
			seenDiag = true
		case bcl.VerifPtLexAfterLineUpd:
			if seenDiag {
				seenUpdAfterDiag = true
			}
		}
	}
	return false
}

func c12Pipeline(c *core.Ctx, i int64, r *rand.Rand) {
	var src []byte
	kind := ""
	switch i % 4 {
	case 0, 1:
		src = c12ManyErrors(r, 40+r.Intn(200))
		kind = "many_syntax_errors"
	case 2:
		src = c11Valid(200 + r.Intn(3000))
		kind = "valid"
	default:
		src = append(c11Valid(100+r.Intn(500)), []byte("print @\n"+string(c11Valid(2000)))...)
		kind = "early_failure"
	}
	chunk := 1 + r.Intn(64)
	var steps []mon.Step
	for k := 0; k*chunk < len(src)+chunk; k++ {
		steps = append(steps, mon.Step{N: chunk, Delay: []int{0, 0, 0, 1, 2}[r.Intn(5)]})
	}
	readErr := i%5 == 3
	if readErr {
		// a read fault on a late read; the log writer is a plain buffer: only one goroutine of the pipeline may use it
		cut := len(steps) * 2 / 3
		steps = append(steps[:cut:cut], mon.Step{N: chunk, Err: mon.ErrInjected})
	}
	sc := mon.NewScript("c12.bcl", src, steps)
	lg := &mon.LockedWriter{}
	out := &mon.LockedWriter{}
	pt := mon.NewPerturb(core.Mix(c.Seed, i), int(i))
	remove := pt.Install()
	if readErr {
		var plainLog, plainOut bytes.Buffer
		_, err := bcl.ParseFile(sc, bcl.OptLogger(&plainLog), bcl.OptOutput(&plainOut), bcl.OptStats(i%2 == 0))
		mon.WaitQuiescent(14)
		remove()
		c.Eval(1)
		if strings.Contains(sc.ReadLog(), mon.ErrInjected.Error()) && !errors.Is(err, mon.ErrInjected) {
			c.Violation("pipeline-result", fmt.Sprintf("the reader delivered a read error but ParseFile returned %v", err), nil)
			return
		}
		c.Count("pipeline_runs_with_read_error_and_plain_log_buffer", 1)
		return
	}
	_, err := bcl.ParseFile(sc, bcl.OptLogger(lg), bcl.OptOutput(out))
	mon.WaitQuiescent(14)
	remove()
	c.Eval(1)
	// result equality with the sequential whole-input parse
	var lg2, out2 bytes.Buffer
	_, err2 := bcl.Parse(src, "c12.bcl", bcl.OptLogger(&lg2), bcl.OptOutput(&out2))
	if (err == nil) != (err2 == nil) || lg.String() != lg2.String() {
		c.Violation("pipeline-result", fmt.Sprintf("pipeline result differs from the sequential parse: err %v vs %v; log %s", err, err2, firstDiff(lg.String(), lg2.String())),
			map[string]any{"source": core.Trunc(string(src), 1500), "chunk": chunk})
		return
	}
	c.Count("pipeline_runs_"+kind, 1)
	ev := pt.Events()
	if overlapped(ev) {
		c.Count("pipeline_runs_with_diagnostic_and_line_table_update_overlapping", 1)
		c.Nontrivial(core.Hash("p", src, chunk))
	}
	c.SetAdd("interleaving_signatures", fmt.Sprintf("%016x", core.Hash(pt.Signature())))
	if c.WantSample() && overlapped(ev) {
		c.Sample(map[string]any{"workload": "pipeline", "input_kind": kind, "input_bytes": len(src), "bytes_per_read": chunk, "diagnostics": strings.Count(lg.String(), "\n"),
			"interleaving_of_hook_points": core.Trunc(pt.Signature(), 300)})
	}
}

func c12Callers(c *core.Ctx, i int64, r *rand.Rand) {
	n := []int{2, 8, 32}[r.Intn(3)]
	type job struct {
		src  []byte
		want ImplResult
	}
	jobs := make([]job, n)
	for k := range jobs {
		switch r.Intn(4) {
		case 0:
			jobs[k].src = c12ManyErrors(r, 5+r.Intn(20))
		case 1:
			// many constants, identifiers and locals: multi-byte operands everywhere
			var b bytes.Buffer
			for j, m := 0, 250+r.Intn(100); j < m; j++ {
				fmt.Fprintf(&b, "var v%d = %d.5\nprint \"c%d_%d\" + v%d\n", j, j+k, k, j, j)
			}
			fmt.Fprintf(&b, "def blk { f = v249 + v%d }\n", r.Intn(250))
			jobs[k].src = b.Bytes()
		default:
			jobs[k].src = c11Valid(50 + r.Intn(600))
		}
		jobs[k].want = Interpret(jobs[k].src)
	}
	var wg sync.WaitGroup
	got := make([]ImplResult, n)
	fileErr := make([]error, n)
	fileLog := make([]string, n)
	// one option slice with spare capacity, shared by all callers (as built with append(common, ...))
	sharedOut := &mon.LockedWriter{}
	shared := make([]bcl.Option, 1, 8)
	shared[0] = bcl.OptOutput(sharedOut)
	names := make([]string, n)
	useDefaultLog := i%3 == 0
	if !useDefaultLog {
		shared = append(shared, bcl.OptLogger(&mon.LockedWriter{}))
	}
	for k := range jobs {
		wg.Add(1)
		go func(k int) {
			defer wg.Done()
			// Parse under this caller's own name with the shared options; the name must come back in the dump
			if p, err := bcl.Parse(jobs[k].src, fmt.Sprintf("caller-%d", k), shared...); err == nil {
				names[k] = bcl.VerifProgParts(p).Name
			} else {
				names[k] = fmt.Sprintf("caller-%d", k)
			}
			got[k] = Interpret(jobs[k].src)
			sc := mon.NewScript("c.bcl", jobs[k].src, []mon.Step{{N: 7}, {N: 100}})
			lg := &mon.LockedWriter{}
			_, fileErr[k] = bcl.ParseFile(sc, bcl.OptLogger(lg), bcl.OptOutput(io.Discard))
			fileLog[k] = lg.String()
		}(k)
	}
	wg.Wait()
	c.Eval(int64(n))
	for k := range jobs {
		w, g := jobs[k].want, got[k]
		if g.Panic != "" || w.Out != g.Out || w.Log != g.Log || fmt.Sprint(w.Err) != fmt.Sprint(g.Err) || !deepBlocksEq(w.Blocks, g.Blocks) || !deepBindingEq(w.Binding, g.Binding) {
			c.Violation("concurrent-callers-influence", fmt.Sprintf("a call running concurrently with %d others gave a different result than alone: out %q vs %q, err %v vs %v, panic %q", n-1, core.Trunc(g.Out, 100), core.Trunc(w.Out, 100), g.Err, w.Err, g.Panic),
				map[string]any{"source": core.Trunc(string(jobs[k].src), 1000)})
			return
		}
		if (fileErr[k] == nil) != (w.Err == nil || strings.HasPrefix(w.Err.Error(), "runtime error")) {
			c.Violation("concurrent-callers-influence", fmt.Sprintf("ParseFile concurrently: err=%v, alone Interpret err=%v", fileErr[k], w.Err), nil)
			return
		}
	}
	for k := range names {
		if names[k] != fmt.Sprintf("caller-%d", k) {
			c.Violation("concurrent-callers-influence", fmt.Sprintf("caller %d parsed under the name caller-%d got a program named %q", k, k, names[k]), nil)
			return
		}
	}
	c.Count(fmt.Sprintf("concurrent_batches_of_%d_callers", n), 1)
	c.Nontrivial(core.Hash("c", i))
}

func c12SharedProg(c *core.Ctx, i int64, r *rand.Rand) {
	src := c11Valid(100 + r.Intn(800))
	src = append(src, []byte("print base + 41\nbind blk:first -> slice\nbind blk:all -> slice\nprint \"done\"\n")...)
	switch r.Intn(4) {
	case 0:
		// blocks with many fields (maps beyond their first bucket), nested ones too
		var b strings.Builder
		for k, n := 0, 1+r.Intn(3); k < n; k++ {
			fmt.Fprintf(&b, "def wide \"w%d\" {\n", k)
			for f, m := 0, []int{8, 9, 10, 17, 40, 130}[r.Intn(6)]; f < m; f++ {
				fmt.Fprintf(&b, "  field_%d = base + %d\n", f, f)
			}
			b.WriteString("  def inner { a = 1; b = 2; c = 3; d = 4; e = 5; f = 6; g = 7; h = 8; i = 9; j = 10 }\n}\n")
		}
		src = append(src, b.String()...)
	case 1:
		// values printed in one piece, however long
		ln := []int{32767, 32768, 35000, 65536}[r.Intn(4)]
		src = append(src, fmt.Sprintf("var long = \"ab\" * %d\n%s", ln, strings.Repeat("print long\nprint base\n", 6))...)
	}
	if r.Intn(3) == 0 {
		src = append(src, []byte("print 1 / 0\n")...)
	}
	out := &mon.LockedWriter{}
	lgSeq := &mon.LockedWriter{}
	lg := &mon.LockedWriter{}
	p, err := bcl.Parse(src, "shared", bcl.OptOutput(out), bcl.OptLogger(lgSeq))
	if err != nil {
		c.Inconclusive("shared program does not parse")
		return
	}
	wantB, wantBi, wantErr := bcl.Execute(p)
	seqOut := out.String()
	n := []int{2, 8, 32}[r.Intn(3)]
	out2 := &mon.LockedWriter{}
	p2, _ := bcl.Parse(src, "shared", bcl.OptOutput(out2), bcl.OptLogger(lg))
	var wg sync.WaitGroup
	bad := make([]string, n)
	for k := 0; k < n; k++ {
		wg.Add(1)
		go func(k int) {
			defer wg.Done()
			b, bi, e := bcl.Execute(p2)
			if !deepBlocksEq(b, wantB) || !deepBindingEq(bi, wantBi) || fmt.Sprint(e) != fmt.Sprint(wantErr) {
				bad[k] = fmt.Sprintf("blocks/binding/error differ: err %v vs %v", e, wantErr)
			}
		}(k)
	}
	wg.Wait()
	c.Eval(int64(n))
	for _, b := range bad {
		if b != "" {
			c.Violation("shared-prog-result", "executing one Prog from several goroutines: "+b, map[string]any{"source": core.Trunc(string(src), 1000), "goroutines": n})
			return
		}
	}
	// every line of the sequential output must appear n times
	lines := strings.Split(strings.TrimSuffix(out2.String(), "\n"), "\n")
	sort.Strings(lines)
	var want []string
	for k := 0; k < n; k++ {
		want = append(want, strings.Split(strings.TrimSuffix(seqOut, "\n"), "\n")...)
	}
	sort.Strings(want)
	if strings.Join(lines, "\n") != strings.Join(want, "\n") {
		c.Violation("shared-prog-output", fmt.Sprintf("output of %d concurrent executions is not %d times the sequential output", n, n), map[string]any{"source": core.Trunc(string(src), 1000)})
		return
	}
	// warnings: every execution logs the same warnings
	seqWarn := strings.Count(lgSeq.String(), "WARNING")
	if got := strings.Count(lg.String(), "WARNING"); got != n*seqWarn || seqWarn == 0 {
		c.Violation("shared-prog-log", fmt.Sprintf("%d concurrent executions logged %d warnings, one execution logs %d", n, got, seqWarn), map[string]any{"source": core.Trunc(string(src), 1000)})
		return
	}
	// executing did not alter the program
	d1, _, _, _ := dumpOf(p)
	d2, _, _, _ := dumpOf(p2)
	if !bytes.Equal(d1, d2) {
		c.Violation("shared-prog-altered", "the shared Prog dumps differently after concurrent executions", nil)
		return
	}
	c.Count(fmt.Sprintf("shared_prog_executions_from_%d_goroutines", n), 1)
	c.Nontrivial(core.Hash("s", i))
	// the same with the program printing into an operating-system file (an *os.File is safe for concurrent use;
	// opened for appending, so every write lands whole): a third of the cases, and /dev/null for another third
	if i%3 != 0 {
		fn := filepath.Join(c.Dir, fmt.Sprintf("shared-out-%d-%d", i, os.Getpid()))
		if i%3 == 2 {
			fn = "/dev/null"
		}
		f, ferr := os.OpenFile(fn, os.O_CREATE|os.O_WRONLY|os.O_APPEND, 0o644)
		if ferr != nil {
			return
		}
		defer func() {
			f.Close()
			if fn != "/dev/null" {
				os.Remove(fn)
			}
		}()
		lg3 := &mon.LockedWriter{}
		p3, err3 := bcl.Parse(src, "shared", bcl.OptOutput(f), bcl.OptLogger(lg3))
		if err3 != nil {
			return
		}
		bad3 := make([]string, n)
		for k := 0; k < n; k++ {
			wg.Add(1)
			go func(k int) {
				defer wg.Done()
				pan, _ := protect(func() {
					b, bi, e := bcl.Execute(p3)
					if !deepBlocksEq(b, wantB) || !deepBindingEq(bi, wantBi) || fmt.Sprint(e) != fmt.Sprint(wantErr) {
						bad3[k] = fmt.Sprintf("blocks/binding/error differ: err %v vs %v", e, wantErr)
					}
				})
				if pan != "" {
					bad3[k] = "panic: " + pan
				}
			}(k)
		}
		wg.Wait()
		c.Eval(int64(n))
		for _, b := range bad3 {
			if b != "" {
				c.Violation("shared-prog-result", "executing one Prog (printing into an *os.File) from several goroutines: "+b, map[string]any{"source": core.Trunc(string(src), 1000), "goroutines": n})
				return
			}
		}
		if fn != "/dev/null" {
			data, _ := os.ReadFile(fn)
			got := strings.Split(strings.TrimSuffix(string(data), "\n"), "\n")
			sort.Strings(got)
			if strings.Join(got, "\n") != strings.Join(want, "\n") {
				c.Violation("shared-prog-output", fmt.Sprintf("the file written by %d concurrent executions does not hold %d times the sequential output (%d lines, expected %d)", n, n, len(got), len(want)), map[string]any{"source": core.Trunc(string(src), 1000)})
				return
			}
		}
		c.Count("shared_prog_executions_printing_into_an_os_file", 1)
	}
}

func init() {
	core.Register(&core.Check{
		ID:    "C12",
		Level: "exploration",
		Rule: "Go race detector on a '-race -tags verif' build of the workers (GORACE=halt_on_error=0 log_path=...; reports are counted from the log files, deduplicated by the pair of library functions, exit codes are not trusted) + result-equality monitor. " +
			"Workload: (a) the file pipeline on inputs with syntax errors on many lines, valid inputs and early lexical failures, read in chunks of 1..64 bytes with delays and seeded perturbation at the suspension points, so that the parser formats diagnostics while the lexer appends to the line table; (b) batches of 2/8/32 concurrent callers interpreting and ParseFile-ing different inputs, results compared with the sequential ones; " +
			"(c) one shared Prog executed from 2/8/32 goroutines with a concurrency-safe writer: results equal the sequential ones, output is n times the sequential lines, the Prog dumps the same afterwards. " +
			"distinct = hash of the run; non-trivial = (a) the event log shows a line-table update between two diagnostics, (b)/(c) the calls overlapped in one batch Also: the first use of the library in every worker process is 16 concurrent Interpret calls, half of them with disassembly, trace and statistics on; concurrent callers share one option slice with spare capacity and partly use the default log destination; pipeline runs with a late read error and a plain unsynchronised log buffer; the shared program executes three binds and the warnings are counted. A quarter of the shared programs define blocks of 8..130 fields (maps beyond their first bucket) with nested ones, another quarter print 64..128 KiB strings six times (each must arrive in one piece). Two thirds of the shared programs are also executed concurrently while printing into an *os.File (a file opened for appending, whose contents are compared, and /dev/null).",
		Assumptions:   []string{"absence of reports is absence on the executions run under the detector, not for all schedules", "the race detector sees only synchronisation it intercepts (pure Go here)"},
		MinNontrivial: 200,
		Race:          func(tier string) bool { return true },
		Shards:        func(tier string) int { return 8 },
		Env:           core.RaceEnv,
		Run: func(c *core.Ctx) {
			// the very first use of the library in this process happens from several goroutines at once
			if c.Only < 0 && c.From == 0 {
				c.Begin(-1)
				var wg sync.WaitGroup
				start := make(chan struct{})
				bad := make([]string, 16)
				for g := 0; g < 16; g++ {
					wg.Add(1)
					go func(g int) {
						defer wg.Done()
						<-start
						// every second caller with all introspection options on (lazily built tables are cold)
						var xo []bcl.Option
						if g%2 == 1 {
							xo = []bcl.Option{bcl.OptDisasm(true), bcl.OptTrace(true), bcl.OptStats(true)}
						}
						r := Interpret([]byte(fmt.Sprintf("var x = %d\nprint x + 1 * 2 - (3 and 4 or not 5)\ndef b \"n\" { f = x == %d; g = \"s\" * 2 }\nbind b -> struct\nbind b:all -> slice\n", g, g)), xo...)
						if r.Err != nil || r.Panic != "" || r.Out == "" {
							bad[g] = fmt.Sprintf("err=%v panic=%q out=%q log=%q", r.Err, r.Panic, r.Out, r.Log)
						}
					}(g)
				}
				close(start)
				wg.Wait()
				c.Eval(16)
				for _, b := range bad {
					if b != "" {
						c.Violation("first-use-concurrent", "a valid program fails when the library's first use in a process is concurrent: "+b, nil)
						break
					}
				}
				c.Count("processes_whose_first_library_use_was_concurrent", 1)
			}
			n := int64(c.Pick(5000, 100000))
			for i := int64(0); i < n; i++ {
				if !c.Mine(i) {
					continue
				}
				c.Begin(i)
				r := c.Rand(i)
				switch {
				case i%10 < 6:
					c12Pipeline(c, i, r)
				case i%10 < 8:
					c12Callers(c, i, r)
				default:
					c12SharedProg(c, i, r)
				}
			}
		},
		Post: func(p *core.Parent) {
			reports, distinct := core.ScanRaceLogs(p.Dir)
			p.Extra["race_detector_reports"] = reports
			p.Extra["race_detector_distinct_reports"] = len(distinct)
			p.Extra["race_detector_executions"] = p.Merged.Evaluations
			var sigs []string
			for s := range distinct {
				sigs = append(sigs, s)
			}
			sort.Strings(sigs)
			for _, s := range sigs {
				p.Merged.Violations = append(p.Merged.Violations, core.Violation{Sig: s, Case: -1,
					What:   fmt.Sprintf("data race reported by the race detector (%d reports in this run involve the library)", reports),
					Detail: map[string]any{"report": core.Trunc(distinct[s], 5000)}})
			}
		},
	})
}
