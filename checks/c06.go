package checks

import (
	"bytes"
	"errors"
	"fmt"
	"math/rand"
	"strings"

	"github.com/wkhere/bcl"

	"verif/internal/bc"
	"verif/internal/core"
	"verif/internal/lang"
	"verif/internal/mon"
)

// vocabulary for random token sequences (small ints only: no legitimately huge results)
var c06Vocab = []string{"var", "def", "eval", "print", "bind", "true", "false", "nil", "not", "and", "or",
	"x", "y", "z", "struct", "slice", "first", "last", "all", "TYPE", "NAME",
	"0", "1", "2", "7", "017", "0x1F", "1.5", "2e3", "0.0", `""`, `"s"`, `"a b"`, `"\n"`,
	"=", "==", "!=", "<", "<=", ">", ">=", "+", "-", "*", "/", "(", ")", "{", "}", ":", "->", ";"}

var c06BadToks = []lang.Tok{
	{Kind: lang.TBad, Text: "!", FailAt: 1}, {Kind: lang.TBad, Text: "@", FailAt: 1}, {Kind: lang.TBad, Text: "$", FailAt: 1},
	{Kind: lang.TBad, Text: "[", FailAt: 1}, {Kind: lang.TBad, Text: "é", FailAt: 2}, {Kind: lang.TBad, Text: "\xff", FailAt: 1},
	{Kind: lang.TBad, Text: "1x", FailAt: 2}, {Kind: lang.TBad, Text: "12ab", FailAt: 3}, {Kind: lang.TBad, Text: "0x1g", FailAt: 4},
	{Kind: lang.TBad, Text: "1.", FailAt: 2}, {Kind: lang.TBad, Text: "1e", FailAt: 2}, {Kind: lang.TBad, Text: "1e+", FailAt: 3},
	{Kind: lang.TBad, Text: "1.5x", FailAt: 4}, {Kind: lang.TBad, Text: `ab"`, FailAt: 3}, {Kind: lang.TBad, Text: `1"`, FailAt: 2},
	{Kind: lang.TBad, Text: `"s"x`, FailAt: 4}, {Kind: lang.TBad, Text: `"abc`, FailAt: 4, ToEOL: true}, {Kind: lang.TBad, Text: "\"abc\n", FailAt: 5},
	{Kind: lang.TBad, Text: `"ab\`, FailAt: 4, ToEOL: true}, {Kind: lang.TBad, Text: "\"ab\\\n", FailAt: 5}, {Kind: lang.TBad, Text: "0x1.", FailAt: 4},
	{Kind: lang.TBad, Text: "\x00", FailAt: 1}, {Kind: lang.TBad, Text: "~", FailAt: 1}, {Kind: lang.TBad, Text: "\u2028", FailAt: 3},
}

func wordsToToks(ws []string) []lang.Tok {
	src := strings.Join(ws, " ")
	t, ok := lang.Lex(src)
	if !ok {
		panic("wordsToToks: " + src)
	}
	return t
}

// vetMemory tells whether the input may be run: false if the reference can
// see that its legitimate result is a huge string (excluded by the property).
func vetMemory(src []byte) bool {
	if !bytes.Contains(src, []byte("*")) {
		return true
	}
	toks, ok := lang.Lex(string(src))
	if !ok {
		// our tokenizer gives up; run it only if no large number is around
		return !hasLargeNumber(src)
	}
	p, v := lang.Parse(toks)
	if v.Kind == lang.Reject {
		return true
	}
	oc := lang.RunWith(p, 1<<20)
	if oc.TooLarge {
		return false
	}
	if oc.Unspecified != "" && hasLargeNumber(src) {
		// the reference stopped early in an unspecified zone; be careful with what follows
		return false
	}
	return true
}

func hasLargeNumber(src []byte) bool {
	run := 0
	for i, c := range src {
		if c >= '0' && c <= '9' {
			run++
			if run >= 5 {
				return true
			}
		} else {
			run = 0
		}
		if (c == 'x' || c == 'X') && i > 0 && src[i-1] == '0' {
			h := 0
			for j := i + 1; j < len(src) && strings.IndexByte("0123456789abcdefABCDEF", src[j]) >= 0; j++ {
				h++
			}
			if h >= 4 {
				return true
			}
		}
	}
	return false
}

type c06Target struct {
	secret int `bcl:"secret"`
	Name   string
	A      int
	F      float64
	S      string
	B      bool
	X      any
}

// c06Run pushes one input through every entry point. hint: expectation class
// ("" none, "ok" must succeed without error, "err" must return an error).
func c06Run(c *core.Ctx, i int64, src []byte, class string, hint string) {
	c.NoteInput("src", src)
	if !vetMemory(src) {
		c.Count("skipped_excluded_huge_result", 1)
		return
	}
	c.Count("inputs_"+class, 1)
	report := func(api, pan, stack string) {
		c.Violation(panicSig(pan, stack), fmt.Sprintf("%s panicked on %s input: %s\n%s", api, class, pan, core.Trunc(stack, 1200)),
			map[string]any{"source": core.Trunc(string(src), 3000), "source_q": core.Trunc(fmt.Sprintf("%q", src), 6000), "api": api})
	}
	// Parse + Execute with the VM step monitor
	var out, lg bytes.Buffer
	var prog *bcl.Prog
	var perr error
	pan, stack := protect(func() { prog, perr = bcl.Parse(src, "in", bcl.OptOutput(&out), bcl.OptLogger(&lg)) })
	c.Eval(1)
	if pan != "" {
		report("Parse", pan, stack)
		return
	}
	if perr == nil && prog == nil {
		c.Violation("no-result-no-error", "Parse returned neither a program nor an error", map[string]any{"source_q": fmt.Sprintf("%q", src)})
		return
	}
	if hint != "" {
		// observation only: what the implementation did with an input at a limit
		if perr == nil {
			c.Count("limit_inputs_compiled", 1)
		} else {
			c.Count("limit_inputs_rejected", 1)
		}
	}
	nontrivial := perr != nil && lg.Len() > 0
	if perr == nil {
		parts := bcl.VerifProgParts(prog)
		ins, ierr := bc.Instructions(parts.Code)
		steps := 0
		badPC := -1
		bcl.VerifSetVMHook(func(st bcl.VerifVMState) {
			steps++
			if st.PC < 0 || st.PC >= st.CodeLen {
				badPC = st.PC
			}
		})
		var xerr error
		pan, stack = protect(func() { _, _, xerr = bcl.Execute(prog) })
		bcl.VerifSetVMHook(nil)
		c.Eval(1)
		if pan != "" {
			report("Execute", pan, stack)
			return
		}
		if ierr == nil && steps > len(ins) {
			c.Violation("step-bound", fmt.Sprintf("executed %d instructions, the program has %d (only forward jumps are emitted)", steps, len(ins)), map[string]any{"source_q": fmt.Sprintf("%q", src)})
		}
		if badPC >= 0 {
			c.Violation("pc-out-of-code", fmt.Sprintf("pc %d outside the code", badPC), map[string]any{"source_q": fmt.Sprintf("%q", src)})
		}
		c.Count("vm_instructions_observed", int64(steps))
		if xerr != nil {
			c.Count("runtime_errors_returned", 1)
		}
		nontrivial = true
	} else {
		c.Count("parse_errors_returned", 1)
	}
	// Interpret
	r := InterpretReused(src)
	c.Eval(1)
	if r.Panic != "" {
		report("Interpret", r.Panic, r.Stack)
		return
	}
	if (r.Err != nil) != (perr != nil) && !(perr == nil && r.Err != nil) {
		c.Violation("parse-interpret-disagree", fmt.Sprintf("Parse err=%v but Interpret err=%v", perr, r.Err), map[string]any{"source_q": fmt.Sprintf("%q", src)})
	}
	// Unmarshal
	var tgt c06Target
	var uerr error
	pan, stack = protect(func() { uerr = bcl.Unmarshal(src, &tgt, bcl.OptOutput(&out), bcl.OptLogger(&lg)) })
	c.Eval(1)
	if pan != "" {
		report("Unmarshal", pan, stack)
		return
	}
	_ = uerr
	// one of the file variants; its goroutines cannot be recovered: a panic
	// there kills this worker and the parent finds the case in the journal
	rr := c.Rand(i ^ 0x7f4a7c15)
	var steps []mon.Step
	if len(src) > 0 {
		for k := rr.Intn(3); k > 0; k-- {
			steps = append(steps, mon.Step{N: 1 + rr.Intn(len(src))})
		}
	}
	injected := false
	if len(steps) > 0 && rr.Intn(4) == 0 {
		// the last scripted read hands out its bytes together with a real error (also after the lexer gave up)
		steps[len(steps)-1].Err = []error{mon.ErrInjected, mon.ErrWrappedEOF}[rr.Intn(2)]
		injected = true
	}
	sc := mon.NewScript("f.bcl", src, steps)
	out.Reset()
	lg.Reset()
	var ferr error
	switch i % 3 {
	case 0:
		var fp *bcl.Prog
		fp, ferr = bcl.ParseFile(sc, bcl.OptOutput(&out), bcl.OptLogger(&lg))
		if ferr == nil && fp == nil {
			c.Violation("no-result-no-error", "ParseFile returned neither a program nor an error", map[string]any{"source_q": fmt.Sprintf("%q", src)})
		}
		c.Count("calls_ParseFile", 1)
	case 1:
		_, _, ferr = bcl.InterpretFile(sc, bcl.OptOutput(&out), bcl.OptLogger(&lg))
		c.Count("calls_InterpretFile", 1)
	case 2:
		var t2 c06Target
		ferr = bcl.UnmarshalFile(sc, &t2, bcl.OptOutput(&out), bcl.OptLogger(&lg))
		c.Count("calls_UnmarshalFile", 1)
	}
	c.Eval(1)
	if injected {
		c.Count("file_variant_calls_with_data_and_error_in_one_read", 1)
		if ferr == nil && sc.ErrDelivered() {
			c.Violation("read-error-lost", "a file variant returned nil although a read returned an error", map[string]any{"source_q": fmt.Sprintf("%q", src), "reads": sc.ReadLog()})
		}
	} else if (ferr != nil) != (perr != nil) && i%3 == 0 {
		c.Violation("parse-parsefile-disagree", fmt.Sprintf("Parse err=%v but ParseFile err=%v", perr, ferr), map[string]any{"source_q": fmt.Sprintf("%q", src), "reads": sc.ReadLog()})
	}
	if nontrivial {
		c.Nontrivial(core.Hash(src))
	}
	if c.WantSample() && len(src) > 8 && len(src) < 200 {
		c.Sample(map[string]any{"class": class, "input": fmt.Sprintf("%q", src), "parse_error": perr != nil})
	}
}

// ------------------------------------------------------------ fixed lists

type c06Fixed struct {
	class, hint string
	src         func() []byte
}

func rep(s string, n int) string { return strings.Repeat(s, n) }

func c06FixedList() []c06Fixed {
	var l []c06Fixed
	add := func(class, hint, src string) {
		l = append(l, c06Fixed{class, hint, func() []byte { return []byte(src) }})
	}
	lazy := func(class, hint string, f func() string) {
		l = append(l, c06Fixed{class, hint, func() []byte { return []byte(f()) }})
	}
	// (4a) operand stack depth through nested parentheses: depth n+1 operands
	for _, n := range []int{1000, 1019, 1020, 1021, 1022, 1023, 1024, 1025, 1026, 1027, 2048, 5000, 10000} {
		n := n
		hint := ""
		if n+1 <= 1021 {
			hint = "ok"
		}
		lazy("limit_operand_depth", hint, func() string { return "print " + rep("1+(", n) + "1" + rep(")", n) })
		lazy("limit_operand_depth", "", func() string { return "def b { x = " + rep("1-(", n) + "1" + rep(")", n) + " }" })
	}
	// (4a') the stack filled up to the limit by each kind of pushing instruction:
	// constant, the zero/one/true/false/nil shortcuts, a variable read, a field read
	for _, k := range []string{"2", "0", "1", "true", "false", "nil", "v", "f", "2.5", `"s"`} {
		for n := 1016; n <= 1030; n++ {
			k, n := k, n
			lazy("limit_operand_depth_by_push_kind", "", func() string {
				return "def b { f = 5\nvar v = 7\ny = " + rep(k+"==(", n) + k + rep(")", n) + " }"
			})
		}
		for _, nv := range []int{1021, 1022, 1023, 1024} {
			k, nv := k, nv
			lazy("limit_locals_then_push_kind", "", func() string {
				var b strings.Builder
				b.WriteString("def b { f = 5\nvar v = 7\n")
				for j := 1; j < nv; j++ {
					fmt.Fprintf(&b, "var w%d\n", j)
				}
				b.WriteString("eval " + k + "\nz = " + k + " == " + k + "\n}")
				return b.String()
			})
		}
	}
	// (4b,c) live variables, with and without temporaries on top
	for _, n := range []int{1000, 1020, 1021, 1022, 1023, 1024, 1025, 1026, 1027, 1030, 2048} {
		n := n
		decls := func() string {
			var b strings.Builder
			for k := 0; k < n; k++ {
				fmt.Fprintf(&b, "var v%d = %d\n", k, k%7)
			}
			return b.String()
		}
		hint := ""
		if n > 1024 {
			hint = "err"
		}
		hintOK := hint
		if n <= 1020 {
			hintOK = "ok"
		}
		lazy("limit_locals", hintOK, func() string { return decls() })
		lazy("limit_locals", hintOK, func() string { return decls() + "print 1" })
		lazy("limit_locals", hintOK, func() string { return decls() + "print 1+1" })
		lazy("limit_locals", hintOK, func() string { return decls() + "print v0+(v1+(v2+v3))" })
		lazy("limit_locals", hint, func() string { return decls() + "def b { var w = 1; f = w+(w+w) }" })
	}
	// (4d) block nesting
	for _, n := range []int{1, 14, 15, 16, 17, 18, 19, 20, 32, 100, 1000} {
		n := n
		hint := ""
		if n <= 16 {
			hint = "ok"
		}
		lazy("limit_block_nesting", hint, func() string { return rep("def b { x = 1\n", n) + rep("}\n", n) })
		lazy("limit_block_nesting", hint, func() string {
			var b strings.Builder
			for k := 0; k < n; k++ {
				fmt.Fprintf(&b, "def t%d \"n%d\" { var v = %d\n", k%3, k, k)
			}
			b.WriteString("f = v\n")
			b.WriteString(rep("}\n", n))
			return b.String()
		})
	}
	// (4d') at each limit, every kind of statement and runtime event
	for _, lc := range limitEventCases() {
		add("limit_then_each_event", "", lc.src)
	}
	// (4e) parenthesis nesting
	for _, n := range []int{10, 100, 1000, 5000, 10000} {
		n := n
		lazy("limit_paren_nesting", "ok", func() string { return "print " + rep("(", n) + "1" + rep(")", n) })
		lazy("limit_paren_nesting", "", func() string { return "print " + rep("(", n) + "1" + rep(")", n-1) })
		lazy("limit_paren_nesting", "", func() string { return "print " + rep("-", n) + "1" })
		lazy("limit_paren_nesting", "", func() string { return "print " + rep("not ", n) + "1" })
	}
	// (4f) jump distance: the skipped operand of and/or measured in code bytes.
	// operand '1+1+...+1' with m ones compiles to 2m-1 bytes; a leading '-' adds one.
	for d := 65528; d <= 65542; d++ {
		d := d
		hint := "ok"
		if d > 65535 {
			hint = "err"
		}
		operand := func(bytesWanted int) string {
			neg := ""
			if bytesWanted%2 == 0 {
				neg = "-"
				bytesWanted--
			}
			m := (bytesWanted + 1) / 2
			return neg + "1" + rep("+1", m-1)
		}
		// and: JFALSE jumps over POP + operand => distance = 1 + len(operand)
		lazy("limit_jump_distance", hint, func() string { return "print 0 and (" + operand(d-1) + ")" })
		lazy("limit_jump_distance", hint, func() string { return "print 1 and (" + operand(d-1) + ")" })
		// or: JUMP jumps over POP + operand
		lazy("limit_jump_distance", hint, func() string { return "print 1 or (" + operand(d-1) + ")" })
		lazy("limit_jump_distance", hint, func() string { return "def b { f = 0 or (" + operand(d-1) + ") }" })
	}
	// (5) literal hostility
	badInts := []string{"08", "09", "018", "0x", "0X", "9223372036854775808", "9223372036854775809", "18446744073709551616", "99999999999999999999999999",
		"0x8000000000000000", "0xffffffffffffffff", "0x10000000000000000", "01777777777777777777777", "0777777777777777777777777"}
	okInts := []string{"9223372036854775807", "0x7fffffffffffffff", "0777777777777777777777", "00000000000000000000001", "0x0000000000000000000001"}
	badFloats := []string{"1e309", "1e999", "1.8e308", "1e99999999999", "123456789012345678901234567890e300"}
	okFloats := []string{"1e308", "1.7976931348623157e308", "4.9e-324", "1e-999", "0e999", "0.0e-99999", "1." + rep("0", 400), rep("9", 308) + ".0", "0." + rep("0", 400) + "1"}
	badStrs := []string{`"\q"`, `"\x"`, `"\x1"`, `"\xg1"`, `"\8"`, `"\400"`, `"\77"`, `"\u12"`, `"\ud800"`, `"\U00110000"`, `"\'"`, `"\ "`, `"\U0000"`, `"a\zb"`, `"\0"`, `"\x1g"`}
	ctxs := []string{"print %s", "var v = %s", "def b { f = %s }", "print 1 and %s", "print 0 and %s", "def b { f = (%s) + 1 }", "print - %s", "eval %s == %s"}
	for _, cx := range ctxs {
		for _, lit := range badInts {
			add("literal_bad_int", "err", strings.ReplaceAll(cx, "%s", lit))
		}
		for _, lit := range okInts {
			add("literal_extreme_int", "", strings.ReplaceAll(cx, "%s", lit))
		}
		for _, lit := range badFloats {
			add("literal_bad_float", "err", strings.ReplaceAll(cx, "%s", lit))
		}
		for _, lit := range okFloats {
			add("literal_extreme_float", "", strings.ReplaceAll(cx, "%s", lit))
		}
		for _, lit := range badStrs {
			add("literal_bad_string", "err", strings.ReplaceAll(cx, "%s", lit))
		}
	}
	for _, lit := range badStrs {
		add("literal_bad_string", "err", "def b "+lit+" { }")
		add("literal_bad_string", "err", "def b "+lit+" { x = 1 }\nbind b -> struct")
	}
	for _, lit := range append(badInts, "1.5", `"1"`, "2", "01", "0x1") {
		add("literal_bad_int", "err", "def b {}\nbind b:"+lit+" -> struct")
	}
	for _, s := range []string{`"abc`, "\"abc\n", `"abc\`, "\"abc\\\n", `"`, `"\`, `print "abc`, "print \"abc\nprint 1", `print "a\`, "def b \"x", "def b \"x\n{}"} {
		add("literal_unterminated_string", "err", s)
	}
	// (7) programs that reach the struct binding layer of Unmarshal / UnmarshalFile
	for _, body := range []string{"a = 1", "secret = 1", "x = nil", "f = 1", "name = 1", "s = \"x\"; b = true; f = 2.5; a = 3", "def x { y = 1 }", "x = \"s\"", "zz = 1"} {
		for _, bnd := range []string{"-> struct", "-> slice", ":all -> slice", ":last -> struct"} {
			add("unmarshal_directed", "", "def c06_target \"n\" { "+body+" }\nbind c06_target"+bnd)
		}
	}
	// (6) out-of-domain operands
	for _, cnt := range []string{"(0-1)", "(0-2)", "(0-9223372036854775807)", "(0-9223372036854775807-1)", "0", "1", "1000", "524288", "1048576"} {
		add("domain_repeat_count", "", `print "ab" * `+cnt+` == ""`)
		add("domain_repeat_count", "", `var n = `+cnt+` def b { f = "x" * n }`)
	}
	for _, cnt := range []string{"9223372036854775807", "4611686018427387904", "(0-1)", "(0-9223372036854775807-1)", "(0-2)"} {
		add("domain_repeat_count", "", `print "" * `+cnt)
		add("domain_repeat_count", "", `var e = "" var n = `+cnt+` def b { f = e * n }`)
	}
	blkOps := []string{"c == c", "c != c", "c == 1", "1 == c", "c < c", "c + 1", `"s" + c`, `"s" * c`, "c * 2", "- c", "+ c", "not c", "c and 1", "c or 1", "1 and c", "c / c", "c >= 1", "c == nil", `c == "s"`}
	for _, e := range blkOps {
		add("domain_block_operand", "", "def p { def c { x = 1 } y = "+e+" }")
		add("domain_block_operand", "", "def p { def c \"n\" { } print "+strings.ReplaceAll(e, "c", "c.n")+" }")
		add("domain_block_operand", "", "def p { def c { x = 1 } var v = c\n print "+strings.ReplaceAll(e, "c", "v")+" }")
	}
	add("domain_block_operand", "", "def p { def c { x = 1 } print c\n z = c\n def d { w = c } }")
	// operators refusing their operands while the operands are hostile strings (what an error message might quote):
	// runs of continuation bytes, cut characters, 0xFF, long multi-byte text, via escapes and via repetition
	for _, hs := range []string{`"\x80" * 40`, `"` + rep(`\x80`, 40) + `"`, `"` + rep(`\xbf`, 33) + `"`, `"a` + rep(`\x80`, 64) + `"`, `"` + rep(`\xff`, 100) + `"`, `"` + rep(`\xc3`, 50) + `"`,
		`"` + rep(`\xf0\x9f\x98`, 20) + `"`, `"` + rep("é", 40) + `"`, `"` + rep("😀", 20) + `"`, `"` + rep("x", 31) + `é"`, `"` + rep("x", 32) + `\x80\x80"`, `""`, `"` + rep("%s%d%!", 20) + `"`, `"` + rep(`\x00`, 40) + `"`} {
		for _, op := range []string{"-", "*", "/", "<", ">=", "=="} {
			add("domain_hostile_string_operand", "", "print "+hs+" "+op+" 1")
			add("domain_hostile_string_operand", "", "var s = "+hs+"\ndef b { x = nil "+op+" s }")
		}
		add("domain_hostile_string_operand", "", "print - "+hs)
		add("domain_hostile_string_operand", "", "def b { x = + "+hs+" }")
		add("domain_hostile_string_operand", "", "def b { s = "+hs+"; y = s < 1.5 }")
	}
	// unresolved identifiers next to keys of every length (what a hint might compare them with)
	for _, kl := range []int{1, 2, 39, 40, 41, 42, 64, 255, 300} {
		key := identOfLen(kl)
		for _, id := range []string{"x", key + "x", key[:len(key)-1] + "y", identOfLen(40), identOfLen(41), identOfLen(300)} {
			add("domain_unresolved_identifier_next_to_long_keys", "", "def p { "+key+" = 1\n z = "+id+" }")
			add("domain_unresolved_identifier_next_to_long_keys", "", "def p { def c \""+strOfLen(kl, nil)+"\" {}\n z = "+id+" }")
			add("domain_unresolved_identifier_next_to_long_keys", "", "def p { def "+key+" \""+strOfLen(kl, nil)+"\" { "+key+" = 2 }\n def q { z = "+id+" } }")
		}
	}
	add("domain_division", "", "print 1/0")
	add("domain_division", "", "print 1.5/0")
	add("domain_division", "", "print 1/0.0")
	add("domain_division", "", "print 0.0/0.0 == 0.0/0.0")
	add("domain_division", "", "print (0-9223372036854775807-1)/(0-1)")
	add("domain_division", "", "print -(0-9223372036854775807-1)")
	return l
}

// small programs for damage at every position
var c06Seeds = []string{
	`var x = 1; def b "n" { f = x + 2 * 3; g = "s" } bind b -> struct`,
	`def a { def c "k" { z = not true and 1 or nil } } print 1 <= 2`,
	"var s = \"a\\tb\"\nprint s + 1.5 # c\neval s = s * 2",
	`def t { x = 1 } def t { x = 2 } bind t:all -> slice`,
	`print (1 + 2) * -3 / 4 - 0x10 != 017`,
	`def b { var v = 1; v = v + 1; w = v == 2 }`,
}

var c06PrefixSeeds = []string{
	"print 1 # café",
	"var s = \"漢字\" # \U0001F600\nprint s # é漢",
	"def b \"näme\" { f = \"\U0001F600\" }\u0085print 1 #  ",
	"print é",
	"#\U0001F600",
	"print \"a\\u00e9\\U0001F600\\xe9\\351\" + \"\\\"\" # \"",
	"\ufeffprint 1 # \ufeff",
}

// c06ForeignFiles: inputs that are files of another kind (bytecode dumps of this very library first).
func c06ForeignFiles() [][]byte {
	var out [][]byte
	for _, src := range []string{"print 1", "var x = 1\ndef b \"n\" { f = x + 2 }\nbind b -> struct\nprint \"s\" * 3\n", ""} {
		p, err := bcl.Parse([]byte(src), "in.bcl")
		if err != nil {
			continue
		}
		var b bytes.Buffer
		if p.Dump(&b) != nil {
			continue
		}
		d := b.Bytes()
		out = append(out, append([]byte{}, d...), append([]byte{}, d[:min(len(d), 3)]...), append(append([]byte{}, d...), "\nprint 1\n"...),
			append([]byte("#!/usr/bin/env bcl\n"), d...))
	}
	out = append(out,
		[]byte("\xfc\x6c"), []byte("\xfc\x6c\x01\x01"), []byte("\xfc\x6c\x01\x01\x00\x00\x00\x00\x00"),
		[]byte("\x1f\x8b\x08\x00\x00\x00\x00\x00\x00\x03print 1"), []byte("\x7fELF\x02\x01\x01\x00\x00\x00\x00\x00\x00\x00\x00\x00"),
		[]byte("PK\x03\x04\x14\x00\x00\x00"), []byte("\x89PNG\r\n\x1a\n\x00\x00\x00\rIHDR"),
		[]byte("\xff\xfep\x00r\x00i\x00n\x00t\x00 \x001\x00"), []byte("\xfe\xff\x00p\x00r\x00i\x00n\x00t\x00 \x001"),
		[]byte("#!/usr/bin/env bcl\nprint 1\n"), []byte("%PDF-1.4\n%\xe2\xe3\xcf\xd3\n"), []byte("\x00\x00\x00\x00"), []byte("{\"json\": [1, 2.5, \"s\", null]}"),
		[]byte("<?xml version=\"1.0\"?>\n<a b=\"c\"/>"), []byte("key: value\nlist:\n  - 1\n"))
	return out
}

// kthWriteFails accepts k writes and fails every later one.
type kthWriteFails struct{ k, n int }

func (w *kthWriteFails) Write(p []byte) (int, error) {
	w.n++
	if w.n > w.k {
		return 0, errors.New("injected write error")
	}
	return len(p), nil
}

// c06DumpThenRun: Dump to a destination that starts failing at its k-th write, for every k up to the
// size of the dump; the program must still execute afterwards (here: to a runtime error whose message
// needs the line table) and dump again.
func c06DumpThenRun(c *core.Ctx, i int64, variant int) {
	lines := []int{10, 700, 1500, 3000, 5000, 9000}[variant]
	var sb strings.Builder
	for k := 0; k < lines; k++ {
		fmt.Fprintf(&sb, "eval %d\n", k)
	}
	sb.WriteString("print \"before\"\neval 1 / 0\n")
	src := []byte(sb.String())
	c.NoteInput("src", src[:min(len(src), 2000)])
	for k := 0; ; k++ {
		var out, lg bytes.Buffer
		prog, err := bcl.Parse(src, "in", bcl.OptOutput(&out), bcl.OptLogger(&lg))
		if err != nil {
			c.Inconclusive("harness: the dump-then-run program does not parse")
			return
		}
		w := &kthWriteFails{k: k}
		var derr error
		pan, stack := protect(func() { derr = prog.Dump(w) })
		c.Eval(1)
		if pan != "" {
			c.Violation(panicSig(pan, stack), fmt.Sprintf("Dump panicked with a destination failing at write %d: %s", k+1, pan), nil)
			return
		}
		var xerr error
		pan, stack = protect(func() { _, _, xerr = bcl.Execute(prog) })
		c.Eval(1)
		if pan != "" {
			c.Violation(panicSig(pan, stack), fmt.Sprintf("Execute panicked after a Dump that failed at write %d: %s", k+1, pan), nil)
			return
		}
		want := fmt.Sprintf("line %d:", lines+2)
		if xerr == nil || !strings.Contains(xerr.Error(), want) || out.String() != "before\n" {
			c.Violation("program-damaged-by-failed-dump", fmt.Sprintf("after a Dump that failed at write %d (Dump error: %v) the program gives err=%v, output %q; expected a runtime error at %s", k+1, derr, xerr, core.Trunc(out.String(), 80), want), nil)
			return
		}
		var again bytes.Buffer
		if e2 := prog.Dump(&again); e2 != nil {
			c.Violation("program-damaged-by-failed-dump", fmt.Sprintf("after a Dump that failed at write %d a second Dump fails: %v", k+1, e2), nil)
			return
		}
		c.Count("executions_after_a_failed_dump", 1)
		if derr == nil {
			break // the destination took the whole dump: every failing position was tried
		}
	}
	c.Nontrivial(core.Hash("dump-then-run", variant))
}

func c06Damage(seed string) [][]byte {
	var out [][]byte
	b := []byte(seed)
	for p := 0; p < len(b); p++ {
		d := append(append([]byte{}, b[:p]...), b[p+1:]...)
		out = append(out, d)
		for _, x := range []byte{'"', '\\', '#', '!', 0xff, '\n', '(', '}', '9', 'e'} {
			r := append([]byte{}, b...)
			r[p] = x
			out = append(out, r)
		}
		ins := append(append(append([]byte{}, b[:p]...), '"'), b[p:]...)
		out = append(out, ins)
	}
	toks, ok := lang.Lex(seed)
	if ok {
		render := func(ts []lang.Tok) []byte { return lang.Layout(ts, lang.LayoutOpts{}, nil).Src }
		for p := 0; p <= len(toks); p++ {
			if p < len(toks) {
				out = append(out, render(append(append([]lang.Tok{}, toks[:p]...), toks[p+1:]...)))
				if p+1 < len(toks) {
					tr := append([]lang.Tok{}, toks...)
					tr[p], tr[p+1] = tr[p+1], tr[p]
					out = append(out, render(tr))
				}
			}
			for _, w := range c06Vocab {
				t := wordsToToks([]string{w})[0]
				out = append(out, render(append(append(append([]lang.Tok{}, toks[:p]...), t), toks[p:]...)))
			}
			for _, t := range c06BadToks {
				out = append(out, render(append(append(append([]lang.Tok{}, toks[:p]...), t), toks[p:]...)))
			}
		}
	}
	return out
}

func c06Random(c *core.Ctx, i int64, r *rand.Rand) (src []byte, class string) {
	switch i % 6 {
	case 0:
		n := r.Intn(64)
		b := make([]byte, n)
		for k := range b {
			if r.Intn(3) == 0 {
				b[k] = byte(r.Intn(256))
			} else {
				b[k] = " \n\t\"#=+-*/(){}:;<>!019axe._\\"[r.Intn(28)]
			}
		}
		return b, "random_bytes"
	case 1:
		var b strings.Builder
		for k, n := 0, r.Intn(30); k < n; k++ {
			switch r.Intn(8) {
			case 0:
				b.WriteString(c06BadToks[r.Intn(len(c06BadToks))].Text)
			case 1:
				b.WriteString([]string{"é", "漢", "\u0085", "\u00a0", "😀", "\xe2\x82", "\xc3"}[r.Intn(7)])
			default:
				b.WriteString(c06Vocab[r.Intn(len(c06Vocab))])
			}
			if r.Intn(3) > 0 {
				b.WriteString([]string{" ", "\n", "\t", "\r\n", "#c\n"}[r.Intn(5)])
			}
		}
		return []byte(b.String()), "random_text"
	case 2:
		var ws []string
		for k, n := 0, 1+r.Intn(25); k < n; k++ {
			ws = append(ws, c06Vocab[r.Intn(len(c06Vocab))])
		}
		toks := wordsToToks(ws)
		if r.Intn(6) == 0 {
			p := r.Intn(len(toks) + 1)
			toks = append(append(append([]lang.Tok{}, toks[:p]...), c06BadToks[r.Intn(len(c06BadToks))]), toks[p:]...)
		}
		return lang.Layout(toks, lang.LayoutOpts{Hostile: true, Newlines: true, Comments: true, MultiByteWS: true, TouchProb: 20, LeadTrail: true}, r).Src, "random_tokens"
	}
	// valid program, then damage
	cfgs := []lang.GenCfg{lang.CfgExpr(), lang.CfgScope(), lang.CfgBlocks(), lang.CfgBind()}
	cfg := cfgs[r.Intn(len(cfgs))]
	cfg.HostileLits = false // keeps numbers small: no legitimately huge results after damage
	cfg.ErrPct = 10
	g := lang.NewGen(r, cfg)
	p := g.Program()
	toks := lang.Flatten(p)
	switch i % 6 {
	case 3:
		src := lang.Layout(toks, lang.LayoutOpts{StmtNewlines: true}, r).Src
		if len(src) == 0 {
			return src, "program_byte_damage"
		}
		for k := 1 + r.Intn(2); k > 0; k-- {
			pos := r.Intn(len(src))
			switch r.Intn(3) {
			case 0:
				src[pos] = byte(r.Intn(256))
			case 1:
				src = append(src[:pos], src[pos+1:]...)
			default:
				src = append(src[:pos], append([]byte{"\"\\#!(){}=\n\xff9"[r.Intn(12)]}, src[pos:]...)...)
			}
			if len(src) == 0 {
				break
			}
		}
		return src, "program_byte_damage"
	case 4:
		if len(toks) > 0 {
			pos := r.Intn(len(toks))
			nt := wordsToToks([]string{c06Vocab[r.Intn(len(c06Vocab))]})[0]
			if r.Intn(8) == 0 {
				nt = c06BadToks[r.Intn(len(c06BadToks))]
			}
			switch r.Intn(4) {
			case 0:
				toks = append(toks[:pos:pos], toks[pos+1:]...)
			case 1:
				toks = append(append(append([]lang.Tok{}, toks[:pos]...), nt), toks[pos:]...)
			case 2:
				toks = append([]lang.Tok{}, toks...)
				toks[pos] = nt
			default:
				if pos+1 < len(toks) {
					toks = append([]lang.Tok{}, toks...)
					toks[pos], toks[pos+1] = toks[pos+1], toks[pos]
				}
			}
		}
		return lang.Layout(toks, lang.LayoutOpts{Hostile: r.Intn(2) == 0, Newlines: true, Comments: true, TouchProb: 20}, r).Src, "program_token_damage"
	}
	return lang.Layout(toks, lang.LayoutOpts{Hostile: true, Newlines: true, Comments: true, MultiByteWS: true, RawBytes: true, TouchProb: 30, LeadTrail: true}, r).Src, "program_hostile_layout"
}

func init() {
	core.Register(&core.Check{
		ID:    "C06",
		Level: "exploration",
		Rule: "crash/termination monitor in journalled worker processes: every input goes through Parse+Execute (VM hook: executed instructions <= instructions in the program, pc inside the code), Interpret, Unmarshal and one of ParseFile/InterpretFile/UnmarshalFile (a goroutine panic kills the worker; the parent finds the case in the journal and re-runs it alone). " +
			"Inputs: fixed lists (limit scaling around operand depth 1024, 1024 locals, 16 nested blocks, paren nesting to 10^4, jump distance 65528..65542 sized exactly in code bytes; invalid and extreme literals in 8 contexts; out-of-domain operands incl. negative repeat counts and block values on every operator; every single-byte and single-token damage of 6 seed programs) " +
			"and random ones (bytes, text soup, token sequences, generated programs with byte/token damage, hostile layout). A per-case watchdog identifies deadlocks from goroutine dumps. " +
			"distinct = hash of input; non-trivial = the input compiled, or was rejected with a diagnostic Also: the operand stack filled to the limit by each kind of pushing instruction (constant, 0/1/true/false/nil shortcuts, variable read, field read, float, string) at depths 1016..1030 and after 1021..1024 variables; programs that reach the struct-binding layer of Unmarshal with an unexported tagged field in the target; every prefix of seed programs with multi-byte characters (input ending inside a character of a comment, string or stray character); files of another kind as source text (this library's bytecode dumps, gzip/ELF/zip/PNG/PDF headers, UTF-16 text, shebang lines, JSON, XML, YAML); a read handing out data together with a real error in a quarter of the file-variant calls; a program executed and dumped again after a Dump whose destination failed at its k-th write, for every k. Operators refusing hostile string operands (runs of continuation bytes, cut characters, 0xFF, NULs, format verbs, long multi-byte text); unresolved identifiers next to field and child keys of 1..300 bytes. At each limit (14..17 nested blocks, 1021..1024 variables in a block or at toplevel) every kind of statement and runtime event (unresolved identifier, division by zero, type error, duplicate child, one more block / variable, field / TYPE / NAME reads, each form of bind).",
		Assumptions:   []string{"inputs whose legitimate result is a string beyond 2^16..2^20 bytes are skipped (property exclusion); nesting capped at 10^4"},
		MinNontrivial: 1000,
		Run: func(c *core.Ctx) {
			fixed := c06FixedList()
			var i int64
			for _, f := range fixed {
				if c.Mine(i) {
					c.Begin(i)
					c06Run(c, i, f.src(), f.class, f.hint)
				}
				i++
			}
			for _, seed := range c06Seeds {
				// damage lists are deterministic; shard by index
				var dl [][]byte
				for k := 0; ; k++ {
					if dl == nil {
						dl = c06Damage(seed)
					}
					if k >= len(dl) {
						break
					}
					if c.Mine(i) {
						c.Begin(i)
						c06Run(c, i, dl[k], "seed_every_position_damage", "")
					}
					i++
				}
			}
			// every prefix of programs with multi-byte characters in comments, strings and as stray characters
			for _, seed := range c06PrefixSeeds {
				for cut := 0; cut <= len(seed); cut++ {
					if c.Mine(i) {
						c.Begin(i)
						c06Run(c, i, []byte(seed[:cut]), "every_prefix_of_a_seed", "")
					}
					i++
				}
			}
			// files of another kind given as source text
			for _, f := range c06ForeignFiles() {
				if c.Mine(i) {
					c.Begin(i)
					c06Run(c, i, f, "file_of_another_kind", "")
				}
				i++
			}
			// a program stays usable after a failed Dump
			for k := 0; k < 6; k++ {
				if c.Mine(i) {
					c.Begin(i)
					c06DumpThenRun(c, i, k)
				}
				i++
			}
			base := i
			n := int64(c.Pick(150000, 5000000))
			for k := int64(0); k < n; k++ {
				i := base + k
				if !c.Mine(i) {
					continue
				}
				c.Idle()
				r := c.Rand(i)
				src, class := c06Random(c, i, r)
				c.Begin(i)
				c06Run(c, i, src, class, "")
			}
		},
	})
}
