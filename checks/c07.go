package checks

import (
	"bytes"
	"fmt"
	"io"
	"math/rand"
	"os"
	"path/filepath"
	"strings"

	"github.com/wkhere/bcl"

	"verif/internal/core"
	"verif/internal/lang"
	"verif/internal/mon"
)

type parseOutcome struct {
	err  string
	log  string
	dump []byte
	pan  string
}

func wholeOutcome(src []byte, name string) parseOutcome {
	var o parseOutcome
	var lg, out bytes.Buffer
	var p *bcl.Prog
	var err error
	pan, _ := protect(func() { p, err = bcl.Parse(src, name, bcl.OptLogger(&lg), bcl.OptOutput(&out)) })
	o.pan = pan
	o.log = lg.String()
	if err != nil {
		o.err = err.Error()
	} else if pan == "" {
		d, derr, dpan, _ := dumpOf(p)
		if derr != nil || dpan != "" {
			o.pan = "dump: " + dpan + fmt.Sprint(derr)
		}
		o.dump = d
	}
	return o
}

func fileOutcome(sc *mon.Script) parseOutcome {
	var o parseOutcome
	var lg, out mon.LockedWriter
	p, err := bcl.ParseFile(sc, bcl.OptLogger(&lg), bcl.OptOutput(&out))
	o.log = lg.String()
	if err != nil {
		o.err = err.Error()
	} else {
		d, derr, dpan, _ := dumpOf(p)
		if derr != nil || dpan != "" {
			o.pan = "dump: " + dpan + fmt.Sprint(derr)
		}
		o.dump = d
	}
	return o
}

func diffOutcome(whole, chunked parseOutcome) string {
	switch {
	case whole.pan != "" || chunked.pan != "":
		return fmt.Sprintf("panic/dump failure: whole %q chunked %q", whole.pan, chunked.pan)
	case whole.err != chunked.err:
		return fmt.Sprintf("error: whole %q, chunked %q (log whole %q, chunked %q)", whole.err, chunked.err, core.Trunc(whole.log, 200), core.Trunc(chunked.log, 200))
	case whole.log != chunked.log:
		return fmt.Sprintf("diagnostics: whole %q, chunked %q", core.Trunc(whole.log, 300), core.Trunc(chunked.log, 300))
	case !bytes.Equal(whole.dump, chunked.dump):
		return "compiled program (dump) differs: " + firstDiff(string(whole.dump), string(chunked.dump))
	}
	return ""
}

// c07Try runs one (input, script) pair.
func c07Try(c *core.Ctx, src []byte, whole parseOutcome, steps []mon.Step, kind string) bool {
	sc := mon.NewScript("in.bcl", src, steps)
	// a call of another kind in front of some of the file parses (all of them for the tiniest inputs)
	if h := core.Hash(src, len(steps), kind); len(src) <= 8 || h%64 == 0 {
		EarlierCall(h >> 6)
		c.Count("file_parses_after_an_earlier_call_of_another_kind", 1)
	}
	got := fileOutcome(sc)
	c.Eval(1)
	want := whole
	if d := sc.Delivered(); !bytes.Equal(d, src) {
		// the script ended the stream early (data together with EOF): the reference is the delivered prefix
		want = wholeOutcome(d, "in.bcl")
	}
	if d := diffOutcome(want, got); d != "" {
		c.Violation("chunking:"+kind+":"+stripDigits(core.Trunc(d, 24)), fmt.Sprintf("ParseFile differs from Parse on the same bytes (%s; reads: %s): %s", kind, sc.ReadLog(), d),
			map[string]any{"source": core.Trunc(string(src), 2000), "source_q": core.Trunc(fmt.Sprintf("%q", src), 4000), "reads": sc.ReadLog(), "partition_kind": kind})
		return false
	}
	if sc.DataReads.Load() >= 2 {
		c.Nontrivial(core.Hash(src, sc.ReadLog()))
	}
	c.Count("partitions_"+kind, 1)
	return true
}

func c07Input(c *core.Ctx, i int64, src []byte, class string, r *rand.Rand) {
	c.NoteInput("src", src)
	whole := wholeOutcome(src, "in.bcl")
	c.Eval(1)
	if whole.pan != "" {
		c.Inconclusive("whole-input Parse/Dump fails on this input: " + whole.pan)
		return
	}
	c.Count("inputs_"+class, 1)
	if whole.err == "" {
		c.Count("inputs_accepted", 1)
	} else {
		c.Count("inputs_rejected", 1)
	}
	n := len(src)
	// every 2-partition
	if n <= 400 {
		for cut := 1; cut < n; cut++ {
			if !c07Try(c, src, whole, mon.Partition(cut), "two_parts") {
				return
			}
		}
		c.Count("inputs_with_every_2_partition", 1)
	} else {
		for k := 0; k < 40; k++ {
			if !c07Try(c, src, whole, mon.Partition(1+r.Intn(n-1)), "two_parts") {
				return
			}
		}
	}
	// one byte per read
	if n <= 3000 {
		one := make([]mon.Step, n)
		for k := range one {
			one[k].N = 1
		}
		if !c07Try(c, src, whole, one, "one_byte_reads") {
			return
		}
	}
	// random k-partitions
	for t := 0; t < 6; t++ {
		var st []mon.Step
		for k, m := 0, 2+r.Intn(8); k < m; k++ {
			st = append(st, mon.Step{N: 1 + r.Intn(1+r.Intn(max(1, n)))})
		}
		if !c07Try(c, src, whole, st, "random_parts") {
			return
		}
	}
	// zero-byte reads inserted at every step position of a 3-partition
	if n >= 3 {
		a, b := 1+r.Intn(n-1), 1+r.Intn(n-1)
		basep := []mon.Step{{N: min(a, b)}, {N: max(1, max(a, b)-min(a, b))}}
		for pos := 0; pos <= len(basep)+1; pos++ {
			var st []mon.Step
			st = append(st, basep[:min(pos, len(basep))]...)
			st = append(st, mon.Step{N: 0})
			if pos < len(basep) {
				st = append(st, basep[pos:]...)
			}
			if !c07Try(c, src, whole, st, "zero_byte_read") {
				return
			}
		}
		// zero-byte read at every offset for small inputs
		if n <= 120 {
			for cut := 0; cut <= n; cut++ {
				st := []mon.Step{}
				if cut > 0 {
					st = append(st, mon.Step{N: cut})
				}
				st = append(st, mon.Step{N: 0})
				if !c07Try(c, src, whole, st, "zero_byte_read") {
					return
				}
			}
		}
	}
	// many irregular short reads (prime-sized pieces, growing and shrinking)
	if n >= 64 {
		for t := 0; t < 4; t++ {
			var st []mon.Step
			left := n
			for left > 0 {
				k := []int{1, 2, 3, 5, 7, 11, 13, 17, 61, 127, 509, 1021, 2039, 4093, 4099}[r.Intn(15)]
				st = append(st, mon.Step{N: k})
				left -= k
			}
			if !c07Try(c, src, whole, st, "irregular_short_reads") {
				return
			}
		}
	}
	// many zero-byte reads over the whole input, never two in a row
	if n >= 4 {
		var st []mon.Step
		piece := max(1, n/160)
		for k := 0; k < 170; k++ {
			st = append(st, mon.Step{N: 0}, mon.Step{N: piece})
		}
		if !c07Try(c, src, whole, st, "many_zero_byte_reads") {
			return
		}
	}
	// data together with EOF on the last read
	if n >= 2 {
		cut := 1 + r.Intn(n-1)
		if !c07Try(c, src, whole, []mon.Step{{N: cut}, {N: n - cut, Err: io.EOF}}, "data_with_eof") {
			return
		}
		if !c07Try(c, src, whole, []mon.Step{{N: n, Err: io.EOF}}, "data_with_eof") {
			return
		}
	}
	if c.WantSample() && n < 200 && n > 20 {
		c.Sample(map[string]any{"input": fmt.Sprintf("%q", src), "class": class, "accepted": whole.err == "", "partitions": "every 2-partition, 1-byte reads, random, zero-byte reads, data+EOF"})
	}
}

// c07Pages places the real 4096-byte page boundary at every offset of a
// window inside the program: the input is prefixed by padding.
func c07Pages(c *core.Ctx, i int64, prog []byte, r *rand.Rand, pages int) {
	window := min(64, len(prog))
	start := 0
	if len(prog) > window {
		start = r.Intn(len(prog) - window)
	}
	for off := start; off < start+window; off++ {
		padLen := (pages-1)*4096 - off
		for padLen < 0 {
			padLen += 4096
		}
		pad := bytes.Repeat([]byte("# pad ........................\n"), padLen/31+1)[:padLen]
		if padLen > 0 {
			pad[padLen-1] = '\n'
		}
		src := append(append([]byte{}, pad...), prog...)
		if pages >= 3 {
			src = append(src, bytes.Repeat([]byte("\n# trailing page ..............."), 140)...)
		}
		whole := wholeOutcome(src, "in.bcl")
		if whole.pan != "" {
			return
		}
		if !c07Try(c, src, whole, nil, fmt.Sprintf("real_4096_pages_%d", pages)) {
			return
		}
	}
	c.Count("inputs_swept_across_a_page_boundary", 1)
}

func c07Testdata() [][]byte {
	var out [][]byte
	ms, _ := filepath.Glob("/repo/testdata/*.bcl")
	for _, m := range ms {
		if b, err := os.ReadFile(m); err == nil {
			out = append(out, b)
		}
	}
	return out
}

var c07Fixed = []string{
	"",
	"print 1",
	"var x = 1\u0085print x",
	"print\u0085 \u00851",
	"print \"é漢字😀\" # é漢字😀\nprint 2",
	"#é\nprint 1",
	"print é",
	"print 1 é",
	"print 漢",
	"print  \x85 1",
	"print \x85 1",
	"  \xa0print 1",
	"var x = 1   \xa0\x85  print x",
	"print 1 \t\x85",
	"# c\n \xa0\n print 2",
	"print 😀",
	"😀",
	"print 1 😀 2",
	"var x = 1\n😀print x",
	"print \"😀\" # 😀\nprint 2 😀",
	"\ufeffprint 1",
	"\ufeff",
	"\ufeff# c\nvar x = 2\nprint x",
	"print 1 \ufeff",
	"def b {\U0001F600}",
	"print 1;\U00010000",
	"def b \"näme\" { f = \"ü\" } bind b -> struct",
	"print 1 == 2 != 3 <= 4 >= 5 -> 6",
	"bind b:all -> slice",
	"print 1 !",
	"print 1 ! = 2",
	"print \"a\\\"b\\\\\" + \"\\u00e9\\x41\\101\"",
	"print 12345678 + 0x1F2e3d - 1.5e+10 * 017",
	"print \"" + strings.Repeat("a", 70) + "\\\"b\\\\c\\nd\\te\\x41f\\u00e9g\\101h\\U0001F600\" + \"" + strings.Repeat("é", 40) + "\\\"\"",
	"def b \"" + strings.Repeat("n", 64) + "\\\\\" { f = \"" + strings.Repeat(" ", 66) + "\\\"\" }",
	"print \"" + strings.Repeat("x", 130) + "\\",
	"print \"unterminated",
	"print \"unterminated\nprint 2",
	"print 1.",
	"print 1e",
	"print 1x",
	"print abc\"",
	"print \"s\"x",
	"print @",
	"var a = 1\nvar a = 2\nprint (\nprint )\nprint 3 +\nvar b = )\n",
	"print 1\r\nprint 2\rprint 3\n\n\nprint 4",
	"\xff\xfe",
	"print \xc3",
	"# \xe2\x82\nprint 1",
	"print \"\xe2\x82\"",
}

// c07Malformed: every kind of malformed UTF-8 (surrogates, overlong forms, beyond U+10FFFF, cut short, stray
// continuation and impossible bytes), as a stray character, inside a string, a comment, an identifier, before and after tokens
func c07Malformed() []string {
	forms := []string{"\xed\xa0\x80", "\xed\xbf\xbf", "\xe0\x80\x80", "\xe0\x9f\xbf", "\xf0\x80\x80\x80", "\xf0\x8f\xbf\xbf", "\xf4\x90\x80\x80", "\xf5\x80\x80\x80",
		"\xc0\x80", "\xc1\xbf", "\xe2\x82", "\xf0\x9f\x98", "\xf0\x9f", "\x80", "\xbf\xbf", "\xfe", "\xff\xff", "\xe2\x28\xa1", "\xf0\x28\x8c\xbc", "\xf8\x88\x80\x80\x80"}
	var out []string
	for _, f := range forms {
		out = append(out, f, "print "+f, "print 1 "+f+" 2", "print \""+f+"\"", "# "+f+"\nprint 1", "var x = 1\n"+f+"print x", "print ab"+f, "print 1"+f, f+"\n"+f+" print 1")
	}
	return out
}

func init() {
	core.Register(&core.Check{
		ID:    "C07",
		Level: "exploration",
		Rule: "metamorphic monitor (whole vs chunked): for each input, ParseFile fed by a scripted reader must equal Parse on the same bytes in error text, diagnostics text and Dump bytes. Partitions: EVERY 2-partition for inputs <= 400 bytes, one byte per read, random k-partitions, zero-byte reads at every step position (and at every offset for inputs <= 120 bytes), data together with EOF, and the real 4096-byte pages with the page boundary swept over a 64-byte window of the program (2 and 3 pages). " +
			"Inputs: hand-picked ones for every lexical-failure kind, multi-byte characters in strings, comments, as U+0085/U+00A0 whitespace and as stray characters, two-character operators and escapes; the repository's testdata; generated programs (valid, with static errors, token-damaged) under hostile layout. " +
			"distinct = hash(input, read log); non-trivial = at least two non-empty chunks were delivered Also: 170 non-consecutive zero-byte reads; irregular prime-sized reads; tokens longer than a read page (strings, identifiers, numbers, comments); pieces restarting at each long token; files of another kind as text (bytecode dumps, other headers), a 14 kB input with syntax errors pages apart; record-aligned inputs (long string statements and reads all multiples of 16/64/256/512 bytes, so buffer lengths recur); stray 4-byte characters, a byte order mark and bare Latin-1 blank bytes in the fixed inputs. Every kind of malformed UTF-8 (surrogates, overlong forms, beyond U+10FFFF, cut short, stray continuation and impossible bytes) as a stray character, in strings, comments and next to tokens, each with every 2-partition. One file parse in 64, and every file parse of an input of at most 8 bytes, is preceded by a library call of another kind (failed long parse, long run, file parse cut off by a read error, runtime error, Unmarshal, truncated load, failed Dump).",
		Assumptions:   []string{"Parse on the whole input is the reference", "thorough tier repeats the workload under the race detector build"},
		MinNontrivial: 1000,
		RaceAlso:      func(tier string) bool { return tier == "thorough" },
		Run: func(c *core.Ctx) {
			var i int64
			for _, s := range append(append([]string{}, c07Fixed...), c07Malformed()...) {
				if c.Mine(i) {
					c.Begin(i)
					c07Input(c, i, []byte(s), "fixed", c.Rand(i))
				}
				i++
			}
			// files of another kind given as text (this library's own dumps first), and inputs of several pages
			// with syntax errors pages apart: the diagnostics must be those of Parse
			extra := c06ForeignFiles()
			{
				var b strings.Builder
				b.WriteString("print )\n")
				for k := 0; b.Len() < 9000; k++ {
					fmt.Fprintf(&b, "def blk \"n%d\" { f = %d } # filler filler filler filler\n", k, k)
				}
				b.WriteString("var = 2\nprint 3 +\n")
				for k := 0; b.Len() < 14000; k++ {
					fmt.Fprintf(&b, "print %d # filler filler filler filler filler filler\n", k)
				}
				b.WriteString("eval (\nprint 1\n")
				extra = append(extra, []byte(b.String()))
			}
			for _, b := range extra {
				if c.Mine(i) {
					c.Begin(i)
					c07Input(c, i, b, "foreign_files_and_multi_page_errors", c.Rand(i))
				}
				i++
			}
			for _, b := range c07Testdata() {
				if c.Mine(i) {
					c.Begin(i)
					c07Input(c, i, b, "repository_testdata", c.Rand(i))
				}
				i++
				if c.Mine(i) {
					c.Begin(i)
					c07Pages(c, i, b[:min(len(b), 600)], c.Rand(i), 2)
				}
				i++
			}
			// tokens longer than a read page: strings, identifiers, numbers, comments
			for k := 0; k < c.Pick(24, 400); k++ {
				if c.Mine(i) {
					r := c.Rand(i)
					var b strings.Builder
					for t, m := 0, 2+r.Intn(3); t < m; t++ {
						ln := 4097 + r.Intn(6000)
						switch r.Intn(4) {
						case 0:
							fmt.Fprintf(&b, "print %q\n", strOfLen(ln, r))
						case 1:
							fmt.Fprintf(&b, "def b%d { %s = %d }\n", t, identOfLen(ln), t)
						case 2:
							fmt.Fprintf(&b, "print 0.%s1\n", strings.Repeat("0", ln))
						default:
							fmt.Fprintf(&b, "#%s\nprint %d\n", strOfLen(ln, r), t)
						}
					}
					c.Begin(i)
					c07Input(c, i, []byte(b.String()), "long_tokens", r)
				}
				i++
				// long string tokens whose lengths are multiples of a piece size, read in pieces that
				// start anew at every token: the buffer passes through the same lengths for each token
				if c.Mine(i) {
					r := c.Rand(i)
					piece := []int{1100, 1500, 2048, 2500, 3000, 4000}[r.Intn(6)]
					var b strings.Builder
					var cuts []int
					for t, m := 0, 2+r.Intn(3); t < m; t++ {
						b.WriteString("print ")
						start := b.Len()
						ln := piece*(2+r.Intn(4)) + []int{0, 0, 1, 2, 7}[r.Intn(5)] // token text incl. quotes
						if ln < 4098 {
							ln += piece * 2
						}
						b.WriteString("\"" + strOfLen(ln-2, nil) + "\"")
						for off := start + piece; off < start+ln; off += piece {
							cuts = append(cuts, off)
						}
						cuts = append(cuts, b.Len())
						b.WriteString("\n")
					}
					src := []byte(b.String())
					var st []mon.Step
					prev := 0
					for _, cpos := range cuts {
						if cpos > prev && cpos-prev <= 4096 {
							st = append(st, mon.Step{N: cpos - prev})
							prev = cpos
						}
					}
					c.Begin(i)
					whole := wholeOutcome(src, "in.bcl")
					if whole.pan == "" {
						c07Try(c, src, whole, st, "pieces_restarting_at_each_long_token")
					}
				}
				i++
				// record-aligned inputs: every statement (a long string token) and every read is a multiple
				// of one unit, so the reader's buffer passes through the same few lengths again and again
				if c.Mine(i) {
					r := c.Rand(i)
					u := []int{16, 64, 256, 512}[r.Intn(4)]
					var b strings.Builder
					for t, m := 0, 6+r.Intn(6); t < m; t++ {
						ln := u * ((4105+u-1)/u + r.Intn(5000/u)) // "print " + token + "\n"
						b.WriteString("print \"" + strOfLen(ln-9, nil) + "\"\n")
					}
					src := []byte(b.String())
					c.Begin(i)
					whole := wholeOutcome(src, "in.bcl")
					if whole.pan == "" {
						for try, tn := 0, c.Pick(12, 60); try < tn; try++ {
							var st []mon.Step
							lead := u * r.Intn(4096/u) // where the first long read starts, inside token 1
							if lead > 0 {
								st = append(st, mon.Step{N: lead})
							}
							for sum := lead; sum < len(src); {
								k := u * (1 + r.Intn(4096/u))
								if r.Intn(3) == 0 {
									k = 4096
								}
								st = append(st, mon.Step{N: k})
								sum += k
							}
							if !c07Try(c, src, whole, st, "aligned_reads_over_aligned_long_tokens") {
								break
							}
						}
					}
				}
				i++
			}
			n := int64(c.Pick(4000, 60000))
			for k := int64(0); k < n; k++ {
				if c.Mine(i) {
					c.Idle()
					r := c.Rand(i)
					cfg := randProfile(r)
					cfg.CompileErrPct = 10
					cfg.MaxStmts = 5
					g := lang.NewGen(r, cfg)
					toks := lang.Flatten(g.Program())
					class := "generated_valid"
					if k%3 == 1 && len(toks) > 0 {
						pos := r.Intn(len(toks))
						nt := c17Vocab[r.Intn(len(c17Vocab))]
						if r.Intn(2) == 0 {
							toks = append(append(append([]lang.Tok{}, toks[:pos]...), nt), toks[pos:]...)
						} else {
							toks = append(append([]lang.Tok{}, toks[:pos]...), toks[pos+1:]...)
						}
						class = "generated_token_damaged"
					}
					lo := hostileLayout(r)
					src := lang.Layout(toks, lo, r).Src
					c.Begin(i)
					if k%5 == 4 {
						c07Pages(c, i, src[:min(len(src), 3000)], r, 2+int(k/5)%2)
					} else {
						c07Input(c, i, src, class, r)
					}
				}
				i++
			}
		},
	})
}

var _ = strings.Repeat
