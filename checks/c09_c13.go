package checks

import (
	"bytes"
	"errors"
	"fmt"
	"io"
	"math"
	"math/rand"
	"os"
	"path/filepath"
	"reflect"
	"strconv"
	"strings"

	"github.com/wkhere/bcl"

	"verif/internal/bc"
	"verif/internal/core"
	"verif/internal/lang"
)

// ---------------------------------------------------------------- readers

type chunkReader struct {
	data        []byte
	sizes       []int // successive read sizes; then 'rest' bytes per read
	rest        int
	zeroAt      map[int]bool // read numbers that return (0, nil)
	eofWithData bool
	n           int
}

func (r *chunkReader) Read(p []byte) (int, error) {
	r.n++
	if r.zeroAt[r.n] {
		return 0, nil
	}
	if len(r.data) == 0 {
		return 0, io.EOF
	}
	k := r.rest
	if len(r.sizes) > 0 {
		k = r.sizes[0]
		r.sizes = r.sizes[1:]
	}
	if k <= 0 || k > len(p) {
		k = len(p)
	}
	if k > len(r.data) {
		k = len(r.data)
	}
	copy(p, r.data[:k])
	r.data = r.data[k:]
	if len(r.data) == 0 && r.eofWithData {
		return k, io.EOF
	}
	return k, nil
}

type execResult struct {
	out, log string
	blocks   []bcl.Block
	binding  bcl.Binding
	err      string
	pan      string
	stack    string
}

func execProg(p *bcl.Prog) execResult {
	var r execResult
	var xerr error
	r.pan, r.stack = protect(func() { r.blocks, r.binding, xerr = bcl.Execute(p) })
	if xerr != nil {
		r.err = xerr.Error()
	}
	return r
}

func deepBlocksEq(a, b []bcl.Block) bool {
	if len(a) != len(b) {
		return false
	}
	for i := range a {
		if !deepBlockEq(a[i], b[i]) {
			return false
		}
	}
	return true
}

func deepBlockEq(a, b bcl.Block) bool {
	if a.Type != b.Type || a.Name != b.Name || len(a.Fields) != len(b.Fields) {
		return false
	}
	for k, v := range a.Fields {
		w, ok := b.Fields[k]
		if !ok {
			return false
		}
		switch x := v.(type) {
		case bcl.Block:
			y, ok := w.(bcl.Block)
			if !ok || !deepBlockEq(x, y) {
				return false
			}
		case float64:
			y, ok := w.(float64)
			if !ok || math.Float64bits(x) != math.Float64bits(y) {
				return false
			}
		default:
			if _, isBlk := w.(bcl.Block); isBlk || !reflect.DeepEqual(v, w) {
				return false
			}
		}
	}
	return true
}

func deepBindingEq(a, b bcl.Binding) bool {
	switch x := a.(type) {
	case nil:
		return b == nil
	case bcl.StructBinding:
		y, ok := b.(bcl.StructBinding)
		return ok && deepBlockEq(x.Value, y.Value)
	case bcl.SliceBinding:
		y, ok := b.(bcl.SliceBinding)
		return ok && deepBlocksEq(x.Value, y.Value)
	}
	return false
}

// observe parses (or loads) with fresh writers and executes: everything observable.
type observed struct {
	disasm string
	exec   execResult
}

func observeParsed(src []byte, name string) (p *bcl.Prog, o observed, err error) {
	var out, lg bytes.Buffer
	p, err = bcl.Parse(src, name, bcl.OptOutput(&out), bcl.OptLogger(&lg), bcl.OptDisasm(true))
	if err != nil {
		return
	}
	o.disasm = out.String()
	out.Reset()
	o.exec = execProg(p)
	o.exec.out, o.exec.log = out.String(), lg.String()
	return
}

func observeLoaded(r io.Reader, name string) (p *bcl.Prog, o observed, err error, pan, stack string) {
	var out, lg bytes.Buffer
	pan, stack = protect(func() {
		p, err = bcl.LoadProg(r, name, bcl.OptOutput(&out), bcl.OptLogger(&lg), bcl.OptDisasm(true))
	})
	if err != nil || pan != "" {
		return
	}
	o.disasm = out.String()
	out.Reset()
	o.exec = execProg(p)
	o.exec.out, o.exec.log = out.String(), lg.String()
	return
}

func dumpOf(p *bcl.Prog) (data []byte, err error, pan, stack string) {
	var b bytes.Buffer
	pan, stack = protect(func() { err = p.Dump(&b) })
	return b.Bytes(), err, pan, stack
}

func diffObserved(a, b observed) string {
	switch {
	case a.disasm != b.disasm:
		return "disassembly differs: " + firstDiff(a.disasm, b.disasm)
	case a.exec.pan != b.exec.pan:
		return fmt.Sprintf("panic %q vs %q", a.exec.pan, b.exec.pan)
	case a.exec.out != b.exec.out:
		return "output differs: " + firstDiff(a.exec.out, b.exec.out)
	case a.exec.log != b.exec.log:
		return "warnings differ: " + firstDiff(a.exec.log, b.exec.log)
	case a.exec.err != b.exec.err:
		return fmt.Sprintf("error %q vs %q", a.exec.err, b.exec.err)
	case !deepBlocksEq(a.exec.blocks, b.exec.blocks):
		return "blocks differ"
	case !deepBindingEq(a.exec.binding, b.exec.binding):
		return "binding differs"
	}
	return ""
}

func firstDiff(a, b string) string {
	i := 0
	for i < len(a) && i < len(b) && a[i] == b[i] {
		i++
	}
	lo := max(0, i-30)
	return fmt.Sprintf("at byte %d: %q vs %q (lengths %d, %d)", i, core.Trunc(a[lo:], 80), core.Trunc(b[lo:], 80), len(a), len(b))
}

// decoderAgrees checks that the independent decoder recovers exactly the
// program's in-memory parts from the dump, and that the independent encoder
// reproduces the dump byte for byte.
func decoderAgrees(dump []byte, p *bcl.Prog) string {
	f, err := bc.Decode(dump)
	if err != nil {
		return "independent decoder cannot parse the dump: " + err.Error()
	}
	if f.Major != 1 || f.Minor != 1 {
		return fmt.Sprintf("version %d.%d", f.Major, f.Minor)
	}
	want := partsFile(p)
	switch {
	case f.Name != want.Name:
		return fmt.Sprintf("name: decoded %d bytes, program has %d", len(f.Name), len(want.Name))
	case !bytes.Equal(f.Code, want.Code):
		return "code section differs from the program's code"
	case len(f.Constants) != len(want.Constants):
		return fmt.Sprintf("%d constants decoded, program has %d", len(f.Constants), len(want.Constants))
	case len(f.Positions) != len(want.Positions):
		return fmt.Sprintf("%d positions decoded, program has %d", len(f.Positions), len(want.Positions))
	case len(f.LineFeeds) != len(want.LineFeeds):
		return fmt.Sprintf("%d line table entries decoded, program has %d", len(f.LineFeeds), len(want.LineFeeds))
	}
	for i := range f.Constants {
		if !bc.EqualConst(f.Constants[i], want.Constants[i]) {
			return fmt.Sprintf("constant %d: decoded %#v, program has %#v", i, f.Constants[i], want.Constants[i])
		}
	}
	for i := range f.Positions {
		if f.Positions[i] != want.Positions[i] {
			return fmt.Sprintf("position %d: decoded %d, program has %d", i, f.Positions[i], want.Positions[i])
		}
	}
	for i := range f.LineFeeds {
		if f.LineFeeds[i] != want.LineFeeds[i] {
			return fmt.Sprintf("line table %d: decoded %d, program has %d", i, f.LineFeeds[i], want.LineFeeds[i])
		}
	}
	if enc := bc.Encode(f); !bytes.Equal(enc, dump) {
		return "independent encoder does not reproduce the dump: " + firstDiff(string(enc), string(dump))
	}
	return ""
}

// ---------------------------------------------------------------- C09

type c09Reader struct {
	name string
	mk   func(data []byte, r *rand.Rand) io.Reader
}

var c09Readers = []c09Reader{
	{"whole", func(d []byte, r *rand.Rand) io.Reader { return bytes.NewReader(d) }},
	{"one-byte", func(d []byte, r *rand.Rand) io.Reader { return &chunkReader{data: d, rest: 1} }},
	{"halves", func(d []byte, r *rand.Rand) io.Reader { return &chunkReader{data: d, sizes: []int{len(d) / 2}} }},
	{"random-chunks", func(d []byte, r *rand.Rand) io.Reader {
		var sz []int
		for k := 0; k < 40; k++ {
			sz = append(sz, 1+r.Intn(1+r.Intn(5000)))
		}
		return &chunkReader{data: d, sizes: sz, rest: 1 + r.Intn(4096)}
	}},
	{"zero-byte-reads", func(d []byte, r *rand.Rand) io.Reader {
		z := map[int]bool{}
		for k := 0; k < 6; k++ {
			z[1+2*r.Intn(12)] = true // never two in a row beyond what bufio tolerates
		}
		return &chunkReader{data: d, rest: 1 + r.Intn(300), zeroAt: z}
	}},
	{"data-with-EOF", func(d []byte, r *rand.Rand) io.Reader {
		return &chunkReader{data: d, rest: 1 + r.Intn(5000), eofWithData: true}
	}},
}

func c09Program(c *core.Ctx, i int64, src []byte, name, tag string, r *rand.Rand) {
	c.NoteInput("src", src)
	det := func(extra map[string]any) map[string]any {
		m := map[string]any{"source": core.Trunc(string(src), 1500), "source_len": len(src), "program_name_len": len(name), "case_kind": tag}
		if len(src) < 3000 {
			m["source_q"] = fmt.Sprintf("%q", src)
		}
		for k, v := range extra {
			m[k] = v
		}
		return m
	}
	if !vetMemory(src) {
		c.Count("skipped_excluded_huge_result", 1)
		return
	}
	if h := core.Hash(src); h%16 == 9 {
		EarlierCall(h >> 4) // a library call of another kind first (see common.go)
		c.Count("round_trips_after_an_earlier_call_of_another_kind", 1)
	}
	p, want, err := observeParsed(src, name)
	c.Eval(1)
	if err != nil {
		c.Count("programs_rejected_by_parse", 1)
		return
	}
	if want.exec.pan != "" {
		c.Violation(panicSig(want.exec.pan, want.exec.stack), "Execute panicked: "+want.exec.pan, det(nil))
		return
	}
	dump, derr, pan, stack := dumpOf(p)
	if pan != "" {
		c.Violation("dump-panic:"+stripDigits(pan), "Dump panicked on an accepted program: "+pan+"\n"+core.Trunc(stack, 800), det(nil))
		return
	}
	if derr != nil {
		c.Violation("dump-error", "Dump failed on an accepted program: "+derr.Error(), det(nil))
		return
	}
	if d := decoderAgrees(dump, p); d != "" {
		c.Violation("dump-layout", "the dump does not follow the documented layout: "+d, det(map[string]any{"dump_len": len(dump)}))
		return
	}
	// Dump into *os.File destinations that are not regular files
	if i%16 == 0 {
		if f, err := os.OpenFile("/dev/null", os.O_WRONLY, 0); err == nil {
			var derr error
			pan, _ := protect(func() { derr = p.Dump(f) })
			f.Close()
			if derr != nil || pan != "" {
				c.Violation("dump-error", fmt.Sprintf("Dump to /dev/null failed: %v %s", derr, pan), det(nil))
				return
			}
		}
		if pr, pw, err := os.Pipe(); err == nil {
			got := make(chan []byte, 1)
			go func() { b, _ := io.ReadAll(pr); got <- b }()
			var derr error
			pan, _ := protect(func() { derr = p.Dump(pw) })
			pw.Close()
			b := <-got
			pr.Close()
			if derr != nil || pan != "" || !bytes.Equal(b, dump) {
				c.Violation("dump-error", fmt.Sprintf("Dump into a pipe: err=%v panic=%q bytes equal=%v", derr, pan, bytes.Equal(b, dump)), det(nil))
				return
			}
			c.Count("dumps_into_pipe_and_dev_null", 1)
		}
	}
	c.Count("dump_bytes", int64(len(dump)))
	c.Max("max_dump_bytes", int64(len(dump)))
	readers := c09Readers
	for ri, rd := range readers {
		// LoadProg is given another name than the program was parsed under: the name stored in the dump must win
		lp, got, lerr, pan, stack := observeLoaded(rd.mk(dump, r), "name-given-to-LoadProg")
		c.Eval(1)
		c.Count("loads_via_"+rd.name, 1)
		if pan != "" {
			c.Violation("load-panic:"+stripDigits(pan), fmt.Sprintf("LoadProg panicked (reader %s): %s\n%s", rd.name, pan, core.Trunc(stack, 800)), det(map[string]any{"reader": rd.name, "dump_len": len(dump)}))
			return
		}
		if lerr != nil {
			c.Violation("load-error:"+rd.name, fmt.Sprintf("LoadProg of a fresh dump failed (reader %s): %v", rd.name, lerr), det(map[string]any{"reader": rd.name, "dump_len": len(dump)}))
			return
		}
		if d := diffObserved(want, got); d != "" {
			c.Violation("roundtrip-differs:"+rd.name, fmt.Sprintf("loaded program differs from the parsed one (reader %s): %s", rd.name, d), det(map[string]any{"reader": rd.name, "dump_len": len(dump)}))
			return
		}
		if ri == 0 {
			d2, derr2, pan, _ := dumpOf(lp)
			if pan != "" || derr2 != nil || !bytes.Equal(d2, dump) {
				c.Violation("redump-differs", fmt.Sprintf("dumping the loaded program does not give the same bytes (panic=%q err=%v): %s", pan, derr2, firstDiff(string(dump), string(d2))), det(nil))
				return
			}
		}
	}
	// Load into a Prog that already holds another program (with a longer line table)
	{
		var out2, lg2 bytes.Buffer
		other := strings.Repeat("\n", 40+len(src)) + "print 12345\nprint 1/0\n"
		if ep, err := bcl.Parse([]byte(other), "earlier", bcl.OptOutput(&out2), bcl.OptLogger(&lg2), bcl.OptDisasm(true)); err == nil {
			// the earlier program is disassembled, executed and traced before the Prog is reused
			var keptErr error
			protect(func() { _, _, keptErr = bcl.Execute(ep, bcl.OptTrace(true), bcl.OptStats(true)) })
			keptText := fmt.Sprint(keptErr)
			var lerr error
			pan, _ := protect(func() { lerr = ep.Load(bytes.NewReader(dump)) })
			c.Eval(1)
			if pan != "" || lerr != nil {
				c.Violation("load-into-existing-prog", fmt.Sprintf("Prog.Load into a Prog that held another program: err=%v panic=%q", lerr, pan), det(nil))
				return
			}
			if now := fmt.Sprint(keptErr); now != keptText {
				c.Violation("error-text-changes-after-reload", fmt.Sprintf("a runtime error returned earlier reads %q after its Prog was reloaded, it read %q before", now, keptText), det(nil))
				return
			}
			out2.Reset()
			lg2.Reset()
			ex := execProg(ep)
			ex.out, ex.log = out2.String(), lg2.String()
			d2, _, _, _ := dumpOf(ep)
			w := want.exec
			if ex.pan != "" || ex.out != w.out || ex.log != w.log || ex.err != w.err || !deepBlocksEq(ex.blocks, w.blocks) || !deepBindingEq(ex.binding, w.binding) || !bytes.Equal(d2, dump) {
				c.Violation("load-into-existing-prog", fmt.Sprintf("a Prog reloaded from this dump differs from the parsed program: out %q vs %q, err %q vs %q, log %q vs %q, redump equal %v", core.Trunc(ex.out, 100), core.Trunc(w.out, 100), ex.err, w.err, core.Trunc(ex.log, 200), core.Trunc(w.log, 200), bytes.Equal(d2, dump)), det(nil))
				return
			}
			// the reused Prog traced: same text as a freshly loaded one
			out2.Reset()
			var tpan string
			tpan, _ = protect(func() { bcl.Execute(ep, bcl.OptTrace(true)) })
			traced := out2.String()
			var out3, lg3 bytes.Buffer
			if fp, ferr := bcl.LoadProg(bytes.NewReader(dump), "fresh", bcl.OptOutput(&out3), bcl.OptLogger(&lg3)); ferr == nil {
				protect(func() { bcl.Execute(fp, bcl.OptTrace(true)) })
				if tpan != "" || traced != out3.String() {
					c.Violation("load-into-existing-prog", fmt.Sprintf("tracing a Prog reloaded from this dump differs from tracing a freshly loaded one (panic %q): %s", tpan, firstDiff(out3.String(), traced)), det(nil))
					return
				}
			}
			c.Count("loads_into_an_existing_prog", 1)
		}
	}
	// every 2-partition for small dumps
	if (len(dump) <= 600 && (c.Tier == "thorough" || i%8 == 0)) || (len(dump) <= 1500 && tag != "generated" && tag != "float_bit_patterns") {
		for cut := 1; cut < len(dump); cut++ {
			_, got, lerr, pan, _ := observeLoaded(&chunkReader{data: dump, sizes: []int{cut}}, name)
			c.Eval(1)
			if pan != "" || lerr != nil {
				c.Violation("load-2partition", fmt.Sprintf("LoadProg fails when the dump arrives as %d + %d bytes: panic=%q err=%v", cut, len(dump)-cut, pan, lerr), det(map[string]any{"cut": cut, "dump_len": len(dump)}))
				return
			}
			if d := diffObserved(want, got); d != "" {
				c.Violation("roundtrip-2partition", fmt.Sprintf("loaded program differs when the dump arrives as %d + %d bytes: %s", cut, len(dump)-cut, d), det(map[string]any{"cut": cut}))
				return
			}
		}
		c.Count("dumps_with_every_2_partition", 1)
	}
	c.Count("cases_"+tag, 1)
	c.Nontrivial(core.Hash(dump))
	if c.WantSample() && len(src) < 200 {
		c.Sample(map[string]any{"source": string(src), "dump_len": len(dump), "readers": len(readers)})
	}
}

var sizeClasses = []int{0, 1, 2, 94, 95, 96, 239, 240, 241, 242, 2286, 2287, 2288, 2289, 4093, 4094, 4095, 4096, 4097, 4098, 4099, 4100, 8191, 8192, 8193, 67822, 67823, 67824, 67825}

func strOfLen(n int, r *rand.Rand) string {
	var b strings.Builder
	alpha := "abcdefghijklmnopqrstuvwxyz0123456789 _-"
	for b.Len() < n {
		if r != nil && r.Intn(9) == 0 && n-b.Len() >= 2 {
			b.WriteString("é")
		} else {
			b.WriteByte(alpha[b.Len()%len(alpha)])
		}
	}
	return b.String()
}

func identOfLen(n int) string {
	if n == 0 {
		return "i"
	}
	var b strings.Builder
	b.WriteByte('i')
	for b.Len() < n {
		b.WriteByte("abcdefghij_0123456789"[b.Len()%21])
	}
	return b.String()
}

type c09Fixed struct {
	tag  string
	name string
	src  func() string
}

func c09FixedList() []c09Fixed {
	var l []c09Fixed
	for n := 3; n <= 131; n++ {
		n := n
		l = append(l, c09Fixed{"string_constant_size", "in", func() string {
			return fmt.Sprintf("var s = %q\ndef b %q { f = s + 1.5 }\nprint s\n", strOfLen(n, nil), strOfLen(n, nil))
		}})
	}
	l = append(l, c09Fixed{"many_lines", "in", func() string {
		return strings.Repeat("\n", 65530) + strings.Repeat("var v = 1\n", 1)[:0] + "print 1\n\n\n\n\n\n\n\n\nprint 2\nprint 3 + \"s\"\nprint 1 + \"late\"\n"
	}})
	l = append(l, c09Fixed{"many_lines", "in", func() string {
		return strings.Repeat("#\n", 70000) + "def b { x = 1 }\nbind b -> struct\nbind b -> struct\nprint 1 + \"late\"\n"
	}})
	l = append(l, c09Fixed{"source_beyond_16MiB", "in", func() string {
		return "var a = 1\n" + strings.Repeat(" ", 1<<24) + "\n\ndef blk { x = a }\nbind blk -> struct\nbind blk -> struct\nprint a + \"s\"\n"
	}})
	for _, n := range sizeClasses {
		n := n
		l = append(l, c09Fixed{"string_constant_size", "in", func() string {
			return fmt.Sprintf("var s = %q\nprint s == %q\ndef b { f = s + \"!\" }\nbind b -> struct", strOfLen(n, nil), strOfLen(n, nil))
		}})
		l = append(l, c09Fixed{"identifier_size", "in", func() string {
			id := identOfLen(n)
			return fmt.Sprintf("def %s \"%s\" { %s = 1; %sx = %s + 1 }\nbind %s -> slice\nbind %s:all -> slice", id, id, id, id, id, id, id)
		}})
		l = append(l, c09Fixed{"program_name_size", strOfLen(n, nil), func() string { return "print 1+2\ndef b { x = \"y\" }" }})
	}
	l = append(l, c09Fixed{"program_name_size", strOfLen(70000, nil), func() string { return "print 1" }})
	// code > 67823 bytes, sources > 67823 bytes (4-byte positions), runtime error at a late position
	l = append(l, c09Fixed{"large_code", "in", func() string {
		var b strings.Builder
		for k := 0; k < 9000; k++ {
			fmt.Fprintf(&b, "eval 0 or %d + %d * 2\n", k, k+1)
			if k%1000 == 999 {
				b.WriteString("def blk { x = 1 }\n")
			}
		}
		return b.String()
	}})
	l = append(l, c09Fixed{"large_source_offsets", "in", func() string {
		var b strings.Builder
		b.WriteString("var a = 1\n")
		for k := 0; k < 3000; k++ {
			b.WriteString("# padding line to move the offsets beyond the three byte range .........\n")
		}
		b.WriteString("def blk { x = a }\nbind blk -> struct\nbind blk -> struct\nprint a + \"s\"\n")
		return b.String()
	}})
	// string constants that are not text: every single byte, and runs of continuation / lead / 0xFF bytes
	// placed around the 4096-byte marks of a long constant (spelled with escapes)
	l = append(l, c09Fixed{"string_constant_bytes", "in", func() string {
		var b strings.Builder
		for x := 1; x < 256; x++ {
			if x == '"' || x == '\\' || x == '\n' {
				continue
			}
			fmt.Fprintf(&b, "print \"\\x%02x\"\nprint \"\\x%02x\\x%02x\"\n", x, x, 255-x)
		}
		b.WriteString("def blk \"\\xe9\" { f = \"\\x80\"; g = \"\\xff\" + \"\\xc3\" }\nbind blk -> struct\n")
		return b.String()
	}})
	for _, run := range []string{"\\x80", "\\xbf", "\\xc3", "\\xe6\\xbc", "\\xf0\\x9f\\x98", "\\xff", "\\xed\\xa0\\x80"} {
		for _, at := range []int{4090, 4093, 4096, 8186, 8192} {
			run, at := run, at
			l = append(l, c09Fixed{"string_constant_bytes", "in", func() string {
				lit := strOfLen(at, nil) + strings.Repeat(run, 7) + strOfLen(300, nil)
				return "var s = \"" + lit + "\"\nprint s\ndef b { f = s }\n"
			}})
		}
	}
	// jump operands at and around the 16-bit limit (the accepted ones), taken and not taken
	for _, src := range c10Fixed() {
		src := src
		if len(src) > 100000 {
			l = append(l, c09Fixed{"jump_distance_at_the_limit", "in", func() string { return src }})
		} else {
			l = append(l, c09Fixed{"compiler_boundary_programs", "in", func() string { return src }})
		}
	}
	// programs at the run-time limits (16 nested blocks, 1021..1024 live variables) doing each kind of thing there
	for _, lc := range limitEventCases() {
		lc := lc
		l = append(l, c09Fixed{"programs_at_the_runtime_limits", "in", func() string { return lc.src }})
	}
	l = append(l, c09Fixed{"many_constants", "in", func() string {
		var b strings.Builder
		for k := 0; k < 2400; k++ {
			fmt.Fprintf(&b, "print %d.25 != \"c%d\"\n", k, k)
		}
		return b.String()
	}})
	return l
}

func init() {
	core.Register(&core.Check{
		ID:    "C09",
		Level: "exploration",
		Rule: "metamorphic monitor (parsed vs dump->load): for each accepted program Dump must succeed, an independent decoder must recover exactly the program's parts and an independent encoder must reproduce the bytes; LoadProg through 6 reader behaviours (whole, 1 byte per read, halves, random chunks, zero-byte reads, data with EOF) and every 2-partition of small dumps must give a program with identical disassembly, output, blocks, binding, warnings and runtime error text; re-dump must be byte-identical. " +
			"Workload: size-directed programs (string constants, identifiers and program names of 0..67825 bytes across every varint class and the 4096-byte buffers, code and source offsets beyond 67823, 2400+ constants), float constants of random bit patterns, and generated programs of all profiles. " +
			"distinct = hash of dump; non-trivial = program accepted and dumped Also: string sizes 3..131 each with every 2-partition; LoadProg is always given another name than Parse (the dumped name must win); Prog.Load into a Prog that was disassembled, executed and traced before (results, re-dump, trace text and the text of an error kept from before the reload must be unaffected); sources with 65538 / 70000 lines and beyond 16 MiB; Dump into a pipe and /dev/null. String constants that are not text: every single byte value as a one-byte constant, and runs of continuation, lead, cut-character, surrogate and 0xFF bytes placed around offsets 4096 and 8192 of a long constant. Programs whose and/or jump operands lie at and around the 16-bit limit (distances 65524..65535, taken and not taken). All compiler boundary programs of C10 (scopes ending with 1..1025 live variables, binds at every constant-number class) and the run-time limit programs of checks/limits.go round-trip too.",
		Assumptions:   []string{"Execute of the parsed program is the reference for the loaded one", "in the thorough tier the same workload also runs under the race detector build"},
		MinNontrivial: 300,
		RaceAlso:      func(tier string) bool { return tier == "thorough" },
		Run: func(c *core.Ctx) {
			var i int64
			for _, f := range c09FixedList() {
				if c.Mine(i) {
					c.Begin(i)
					c09Program(c, i, []byte(f.src()), f.name, f.tag, c.Rand(i))
				}
				i++
			}
			// float constants over sampled bit patterns a literal can denote
			nf := int64(c.Pick(3000, 100000))
			for k := int64(0); k < nf; k++ {
				if c.Mine(i) {
					r := c.Rand(i)
					var fl []string
					for j := 0; j < 6; j++ {
						bits := r.Uint64() &^ (1 << 63)
						f := math.Float64frombits(bits)
						if math.IsNaN(f) || math.IsInf(f, 0) {
							f = math.MaxFloat64
						}
						s := strconv.FormatFloat(f, 'e', -1, 64)
						if j%2 == 0 && f < 1e15 && f > 1e-5 {
							s = strconv.FormatFloat(f, 'f', -1, 64)
							if !strings.Contains(s, ".") {
								s += ".0"
							}
						}
						fl = append(fl, s)
					}
					src := fmt.Sprintf("print %s\ndef b { f = %s; g = -%s / %s }\nprint %s == %s", fl[0], fl[1], fl[2], fl[3], fl[4], fl[5])
					c.Begin(i)
					c09Program(c, i, []byte(src), "floats", "float_bit_patterns", r)
				}
				i++
			}
			n := int64(c.Pick(8000, 250000))
			for k := int64(0); k < n; k++ {
				if c.Mine(i) {
					c.Idle()
					r := c.Rand(i)
					cfg := randProfile(r)
					cfg.CompileErrPct = 0
					g := lang.NewGen(r, cfg)
					p := g.Program()
					src := lang.Layout(lang.Flatten(p), calmLayout(r), r).Src
					c.Begin(i)
					c09Program(c, i, src, []string{"in", "", "a/b.bcl", "näme"}[r.Intn(4)], "generated", r)
				}
				i++
			}
		},
	})
}

// ---------------------------------------------------------------- C13

type failingWriter struct {
	limit int
	buf   []byte
}

func (w *failingWriter) Write(p []byte) (int, error) {
	room := w.limit - len(w.buf)
	if room <= 0 {
		return 0, errors.New("disk full")
	}
	if len(p) > room {
		w.buf = append(w.buf, p[:room]...)
		return room, errors.New("disk full")
	}
	w.buf = append(w.buf, p...)
	return len(p), nil
}

func c13Load(data []byte, oneByte bool) (err error, pan, stack string, p *bcl.Prog) {
	return c13LoadOpt(data, oneByte, false)
}

func c13LoadOpt(data []byte, oneByte, disasm bool) (err error, pan, stack string, p *bcl.Prog) {
	var r io.Reader = bytes.NewReader(data)
	if oneByte {
		r = &chunkReader{data: data, rest: 1}
	}
	var out, lg bytes.Buffer
	pan, stack = protect(func() {
		p, err = bcl.LoadProg(r, "t", bcl.OptOutput(&out), bcl.OptLogger(&lg), bcl.OptDisasm(disasm), bcl.OptStats(disasm))
	})
	return
}

func c13Dump(c *core.Ctx, dump []byte, src string, allCuts bool, r *rand.Rand) {
	det := func(cut int, mode string) map[string]any {
		return map[string]any{"source": core.Trunc(src, 1500), "dump_hex": core.Trunc(fmt.Sprintf("% x", dump), 4000), "cut": cut, "dump_len": len(dump), "reader": mode}
	}
	if h := core.Hash(dump); h%8 == 3 {
		EarlierCall(h >> 3) // a library call of another kind first (see common.go)
		c.Count("dumps_cut_after_an_earlier_call_of_another_kind", 1)
	}
	// the full dump must load (otherwise the cuts mean nothing)
	if err, pan, _, _ := c13Load(dump, false); err != nil || pan != "" {
		c.Inconclusive(fmt.Sprintf("the complete dump does not load (err=%v panic=%q): C09's matter", err, pan))
		return
	}
	cuts := make([]int, 0, len(dump))
	if allCuts || len(dump) <= 4000 {
		for k := 0; k < len(dump); k++ {
			cuts = append(cuts, k)
		}
	} else {
		// large dumps: all cuts in the first and last 600 bytes, around 4096-byte buffer edges, and a sample
		seen := map[int]bool{}
		add := func(k int) {
			if k >= 0 && k < len(dump) && !seen[k] {
				seen[k] = true
				cuts = append(cuts, k)
			}
		}
		for k := 0; k < 600; k++ {
			add(k)
			add(len(dump) - 1 - k)
		}
		for e := 4096; e < len(dump); e += 4096 {
			for d := -3; d <= 3; d++ {
				add(e + d)
			}
		}
		for k := 0; k < 600; k++ {
			add(r.Intn(len(dump)))
		}
	}
	for _, cut := range cuts {
		for mode := 0; mode < 4; mode++ {
			var err error
			var pan, stack string
			if mode == 3 {
				// a sized reader (bytes.Reader) from which the caller has already consumed a preamble
				br := bytes.NewReader(append([]byte("preamble-of-20-bytes"), dump[:cut]...))
				io.CopyN(io.Discard, br, 20)
				var out, lg bytes.Buffer
				pan, stack = protect(func() { _, err = bcl.LoadProg(br, "t", bcl.OptOutput(&out), bcl.OptLogger(&lg)) })
			} else {
				err, pan, stack, _ = c13LoadOpt(dump[:cut], mode == 1, mode == 2)
			}
			c.Eval(1)
			m := []string{"whole", "one-byte", "whole, disassembly and statistics on", "bytes.Reader after a consumed preamble"}[mode]
			if pan != "" {
				c.Violation("truncated-panic:"+stripDigits(pan), fmt.Sprintf("LoadProg panicked on a dump cut at byte %d of %d (%s reader): %s\n%s", cut, len(dump), m, pan, core.Trunc(stack, 700)), det(cut, m))
				return
			}
			if err == nil {
				c.Violation("truncated-accepted", fmt.Sprintf("LoadProg returned no error for a dump cut at byte %d of %d (%s reader)", cut, len(dump), m), det(cut, m))
				return
			}
		}
		if cut%5 == 0 {
			// the interrupted write left a real file behind; it is handed to LoadProg as it is, with an empty name
			fn := filepath.Join(c.Dir, fmt.Sprintf("c13-cut-%d-%d.bcb", c.Shard, os.Getpid())) // per process: a case confirmed alone runs next to the workers
			if os.WriteFile(fn, dump[:cut], 0o644) == nil {
				if f, ferr := os.Open(fn); ferr == nil {
					var err error
					var out, lg bytes.Buffer
					name := []string{"", "", "x.bcb"}[cut/5%3]
					pan, stack := protect(func() { _, err = bcl.LoadProg(f, name, bcl.OptOutput(&out), bcl.OptLogger(&lg)) })
					f.Close()
					os.Remove(fn)
					c.Eval(1)
					m := fmt.Sprintf("*os.File, name %q", name)
					if pan != "" {
						c.Violation("truncated-panic:"+stripDigits(pan), fmt.Sprintf("LoadProg panicked on a dump cut at byte %d of %d (%s): %s\n%s", cut, len(dump), m, pan, core.Trunc(stack, 700)), det(cut, m))
						return
					}
					if err == nil {
						c.Violation("truncated-accepted", fmt.Sprintf("LoadProg returned no error for a dump cut at byte %d of %d (%s)", cut, len(dump), m), det(cut, m))
						return
					}
					c.Count("cut_dumps_loaded_from_a_real_file", 1)
				}
			}
		}
		c.Nontrivial(core.Hash(dump, cut))
	}
	if c.WantSample() && len(dump) < 200 {
		c.Sample(map[string]any{"source": core.Trunc(src, 200), "dump_hex": fmt.Sprintf("% x", dump), "cut_points": len(cuts), "readers": "whole slice, one byte per read"})
	}
	c.Count("cut_points_tried", int64(len(cuts)))
	c.Count("dumps_cut", 1)
	if allCuts || len(dump) <= 4000 {
		c.Count("dumps_with_every_cut_point", 1)
	}
}

func c13Sources(c *core.Ctx) []string {
	l := []string{
		"print 1",
		"",
		"var x = 1; def b \"n\" { f = x + 2 * 3; g = \"s\"; h = 2.5 } bind b -> struct",
		"print \"" + strOfLen(250, nil) + "\"\nprint 1.5e300\n",
		"def a { def c \"k\" { z = not true and 1 or nil } }\nprint 1 <= 2\n\n\nprint \"x\"+1",
		"print \"" + strOfLen(5000, nil) + "\"",
		"def " + identOfLen(300) + " { " + identOfLen(2300) + " = 1 }",
		// more than 65536 line feeds and more than 65536 code bytes: tables longer than any 16-bit count
		strings.Repeat("\n", 65600) + "print 1\n",
		"print 1" + strings.Repeat("+1", 33000) + "\n",
		// source offsets beyond 16 MiB: 5-byte varints in the positions and line tables
		strings.Repeat(" ", 1<<24) + "\nprint 1 + \"s\"\n",
	}
	// string constants and block names that are not text: runs of continuation bytes, impossible bytes, cut
	// characters, NULs, format verbs and quotes, 30..1200 bytes long (a cut may fall anywhere inside them)
	for _, run := range []string{"\\x80", "\\xbf", "\\xff", "\\xe6\\xbc", "\\xf0\\x9f\\x98", "\\x00", "%s%d%!", "\\\"", "\\xed\\xa0\\x80", "é", "\\n"} {
		for _, n := range []int{30, 100, 1200} {
			body := strings.Repeat(run, n)
			l = append(l, "print \""+body+"\"\ndef b \""+body+"\" { f = \"x"+body+"\" }\nbind b -> struct\n")
		}
	}
	return l
}

// hand-assembled dumps with constant kinds the compiler does not emit
func c13HandAssembled() [][]byte {
	f := &bc.File{Major: 1, Minor: 1, Name: "hand",
		Constants: []any{-1, math.MinInt64, true, false, nil, "s", 2.5, 300, 70000, 1 << 40},
		LineFeeds: []int{3, 300, 70000}}
	var code []byte
	for k := range f.Constants {
		code = append(code, bc.CONST, byte(k), bc.PRINT)
	}
	code = append(code, bc.RET)
	f.Code = code
	for range code {
		f.Positions = append(f.Positions, 1)
	}
	f0 := &bc.File{Major: 1, Minor: 0, Name: "", Code: []byte{bc.RET}, Positions: []int{0}}
	return [][]byte{bc.Encode(f), bc.Encode(f0)}
}

func init() {
	core.Register(&core.Check{
		ID:    "C13",
		Level: "fault_enumeration",
		Rule: "crash monitor over every interruption point: for each dump, LoadProg of every proper prefix (cut 0..len-1; for dumps > 4000 bytes: first/last 600 bytes, 4096-byte buffer edges and a sample), through a whole-slice reader and a one-byte reader, must return a non-nil error and must not panic; prefixes are also produced the way a crash does (Dump into a writer that fails after k bytes). " +
			"Plus all 65536 magic values and all 65536 (major, minor) pairs in front of a valid body: accepted iff magic = FC 6C, major = 1, minor <= 1; every fifth cut is also left behind as a real file and loaded from the *os.File with an empty name; a valid dump behind 100 kinds of leading junk (shebang lines, comments, blanks, NULs, byte order marks, other headers) must be refused. " +
			"distinct = hash(dump, cut); non-trivial = the cut lies inside a dump that loads when complete Load modes: whole slice, one byte per read, whole with disassembly and statistics on, and a bytes.Reader from which a preamble was consumed. Also dumps with more than 65536 line feeds / code bytes and with 5-byte offsets (source beyond 16 MiB). Cut dumps also hold string constants, block names and program names of 30..1200 hostile bytes (continuation bytes, 0xFF, cut characters, NULs, format verbs, quotes).",
		Assumptions:   []string{"the complete dump loads (checked first; C09 covers it)"},
		MinNontrivial: 1000,
		Run: func(c *core.Ctx) {
			var i int64
			dumpSrc := func(src string) []byte {
				// the program name is hostile text too for every third source
				name := []string{"t", strings.Repeat("\x80", 40), strings.Repeat("\xff\x00%s", 30)}[len(src)%3]
				p, err := bcl.Parse([]byte(src), name, bcl.OptLogger(io.Discard), bcl.OptOutput(io.Discard))
				if err != nil {
					return nil
				}
				d, derr, pan, _ := dumpOf(p)
				if derr != nil || pan != "" {
					return nil
				}
				return d
			}
			for _, src := range c13Sources(c) {
				if c.Mine(i) {
					c.Begin(i)
					if d := dumpSrc(src); d != nil {
						c13Dump(c, d, src, false, c.Rand(i))
					} else {
						c.Inconclusive("fixed source could not be dumped: " + core.Trunc(src, 60))
					}
				}
				i++
			}
			for _, d := range c13HandAssembled() {
				if c.Mine(i) {
					c.Begin(i)
					c13Dump(c, d, "(hand-assembled: negative ints, bools, nil, multi-byte varints)", true, c.Rand(i))
					c.Count("hand_assembled_dumps", 1)
				}
				i++
			}
			// writer failing after k bytes
			if c.Mine(i) {
				c.Begin(i)
				src := "var s = \"" + strOfLen(9000, nil) + "\"\nprint s\n"
				p, err := bcl.Parse([]byte(src), "t", bcl.OptLogger(io.Discard), bcl.OptOutput(io.Discard))
				full, _, _, _ := dumpOf(p)
				if err == nil && full != nil {
					for _, k := range []int{0, 1, 3, 4, 5, 100, 4095, 4096, 4097, 8191, 8192, 9000, len(full) - 1} {
						w := &failingWriter{limit: k}
						var derr error
						pan, _ := protect(func() { derr = p.Dump(w) })
						c.Eval(1)
						if pan != "" {
							c.Violation("dump-to-failing-writer-panic", "Dump panicked when the writer failed: "+pan, nil)
							break
						}
						if derr == nil {
							c.Violation("dump-write-error-lost", fmt.Sprintf("Dump returned nil although the writer failed after %d bytes", k), nil)
							break
						}
						if !bytes.Equal(w.buf, full[:len(w.buf)]) {
							c.Inconclusive("interrupted dump is not a prefix of the full dump")
							continue
						}
						lerr, pan, _, _ := c13Load(w.buf, false)
						if pan != "" || lerr == nil {
							c.Violation("truncated-accepted", fmt.Sprintf("LoadProg of a dump interrupted after %d bytes: err=%v panic=%q", len(w.buf), lerr, pan), nil)
							break
						}
						c.Count("interrupted_writes_tried", 1)
						c.Nontrivial(core.Hash("fw", k))
					}
				}
			}
			i++
			// magic and version sweeps, 16 slices each
			body := dumpSrc("print 1")
			for part := 0; part < 32; part++ {
				if c.Mine(i) && body != nil {
					c.Begin(i)
					for v := (part % 16) * 4096; v < (part%16+1)*4096; v++ {
						d := append([]byte{}, body...)
						var wantOK bool
						if part < 16 {
							d[0], d[1] = byte(v>>8), byte(v)
							wantOK = d[0] == 0xFC && d[1] == 0x6C
						} else {
							d[2], d[3] = byte(v>>8), byte(v)
							wantOK = d[2] == 1 && d[3] <= 1
						}
						err, pan, _, _ := c13Load(d, v%2 == 0)
						c.Eval(1)
						what := []string{"magic", "version"}[part/16]
						if pan != "" || (err == nil) != wantOK {
							c.Violation("header-"+what, fmt.Sprintf("%s bytes % x: err=%v panic=%q, acceptance expected: %v", what, d[:4], err, pan, wantOK), nil)
							break
						}
						c.Count(what+"_values_tried", 1)
					}
				}
				i++
			}
			// a valid dump behind something else: the input does not start with the magic bytes
			if c.Mine(i) && body != nil {
				c.Begin(i)
				junk := []string{"#!/usr/bin/env bcl\n", "#!/usr/bin/env -S bcl --bload\n", "#!\n", "#\n", "# bytecode\n", "\n", "\r\n", " ", "\t", "\x00", "\xef\xbb\xbf", "\xff\xfe", "\xfc", "\x6c", "\x6c\xfc",
					"\xfc\x6c\x01", "\x1f\x8b\x08\x00", "BCL\x00", "//\n", ";", "\xfc\x6c\x02\x00junk", string(body[:len(body)-1])}
				for k := 1; k < 40; k++ {
					junk = append(junk, strings.Repeat("\x00", k), strings.Repeat("\n", k))
				}
				for _, j := range junk {
					d := append([]byte(j), body...)
					if len(d) >= 2 && d[0] == 0xFC && d[1] == 0x6C {
						continue // starts with the magic bytes after all: C13 says nothing
					}
					for _, one := range []bool{false, true} {
						err, pan, _, _ := c13Load(d, one)
						c.Eval(1)
						if pan != "" || err == nil {
							c.Violation("header-magic", fmt.Sprintf("a valid dump behind %q does not start with the magic bytes but: err=%v panic=%q", j, err, pan), nil)
							break
						}
						c.Count("dumps_behind_leading_junk_tried", 1)
					}
				}
				c.Nontrivial(core.Hash("leading-junk"))
			}
			i++
			n := int64(c.Pick(3000, 200000))
			for k := int64(0); k < n; k++ {
				if c.Mine(i) {
					c.Idle()
					r := c.Rand(i)
					cfg := randProfile(r)
					cfg.CompileErrPct = 0
					cfg.MaxStmts = 4
					g := lang.NewGen(r, cfg)
					src := string(lang.Layout(lang.Flatten(g.Program()), calmLayout(r), r).Src)
					c.Begin(i)
					if d := dumpSrc(src); d != nil {
						c13Dump(c, d, src, false, r)
					}
				}
				i++
			}
		},
	})
}
