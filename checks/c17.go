package checks

import (
	"bytes"
	"fmt"
	"math/rand"

	"github.com/wkhere/bcl"

	"verif/internal/core"
	"verif/internal/lang"
)

// the language's vocabulary for token edits
var c17Words = []string{"var", "def", "eval", "print", "bind", "true", "false", "nil", "not", "and", "or",
	"x", "y", "zz", "_u", "struct", "slice", "first", "last", "all",
	"1", "0", "42", "2.5", `"s"`, `""`,
	"=", "==", "!=", "<", "<=", ">", ">=", "+", "-", "*", "/", "(", ")", "{", "}", ":", "->", ";"}

var c17Vocab []lang.Tok

func init() {
	for _, w := range c17Words {
		c17Vocab = append(c17Vocab, wordsToToks([]string{w})[0])
	}
	// literals that pass the lexer but denote no value
	c17Vocab = append(c17Vocab, lang.Tok{Kind: lang.TInt, Text: "08"}, lang.Tok{Kind: lang.TStr, Text: `"\q"`}, lang.Tok{Kind: lang.TFloat, Text: "1e999"}, lang.Tok{Kind: lang.TInt, Text: "0x"})
	// tokens on which the lexer fails
	c17Vocab = append(c17Vocab, c06BadToks[0], c06BadToks[1], c06BadToks[6], c06BadToks[9], c06BadToks[13], c06BadToks[15], c06BadToks[16], c06BadToks[17])
}

func c17Layout(r *rand.Rand, hostile bool) lang.LayoutOpts {
	if !hostile {
		return lang.LayoutOpts{}
	}
	return lang.LayoutOpts{Hostile: true, Newlines: true, Comments: r.Intn(2) == 0, MultiByteWS: r.Intn(3) == 0, TouchProb: []int{25, 60, 100}[r.Intn(3)], LeadTrail: true}
}

// c17One checks one token sequence. It returns the verdict kind.
func c17One(c *core.Ctx, i int64, toks []lang.Tok, r *rand.Rand, hostile bool, tag string) *Case {
	cs := &Case{Toks: toks}
	cs.Prog, cs.Verdict = lang.Parse(toks)
	cs.Laid = lang.Layout(toks, c17Layout(r, hostile), r)
	src := cs.Laid.Src
	_, log, err, pan, stack := ParseOnly(src, "in")
	c.Eval(1)
	det := func() map[string]any {
		return map[string]any{"source": string(src), "source_q": fmt.Sprintf("%q", src), "log": log, "err": fmt.Sprint(err),
			"ref_verdict": fmt.Sprintf("%s at token %d (%s)", cs.Verdict.Kind, cs.Verdict.At, cs.Verdict.Why), "edit": tag}
	}
	if pan != "" {
		c.Violation(panicSig(pan, stack), "Parse panicked: "+pan, det())
		return cs
	}
	diags, warns, rest := ParseDiags(log)
	if (err != nil) != (len(diags) > 0) {
		c.Violation("error-iff-diagnostic", fmt.Sprintf("err=%v but %d diagnostics on the log writer", err, len(diags)), det())
		return cs
	}
	if len(rest) > 0 || len(warns) > 0 {
		c.Violation("stray-log", fmt.Sprintf("Parse wrote something that is not a diagnostic: %q", log), det())
		return cs
	}
	switch cs.Verdict.Kind {
	case lang.Gray:
		c.Unspecified()
		return cs
	case lang.Accept:
		c.Count("definite_accept", 1)
		if err != nil {
			c.Violation("rejects-derivable", fmt.Sprintf("derivable source rejected: %s", core.Trunc(log, 300)), det())
			return cs
		}
	case lang.Reject:
		c.Count("definite_reject", 1)
		if cs.Verdict.LexFail {
			c.Count("rejects_by_lexical_failure", 1)
		}
		if err == nil {
			c.Violation("accepts-underivable", "source not derivable from the grammar ("+cs.Verdict.Why+") was accepted", det())
			return cs
		}
		if mm := checkFirstDiag(cs, diags[0]); mm != nil {
			c.Violation(mm.Sig, mm.What, det())
			return cs
		}
		// the introspection options change nothing about a rejection
		{
			var o2, l2 bytes.Buffer
			var e2 error
			pan2, _ := protect(func() {
				_, e2 = bcl.Parse(src, "in", bcl.OptOutput(&o2), bcl.OptLogger(&l2), bcl.OptStats(true), bcl.OptDisasm(true), bcl.OptTrace(true))
			})
			c.Eval(1)
			if pan2 != "" || e2 == nil {
				c.Violation("rejection-lost-with-options", fmt.Sprintf("with statistics, disassembly and trace on, Parse of a rejected source returns err=%v %s", e2, pan2), det())
				return cs
			}
		}
		// Interpret must not return results
		res := InterpretReused(src)
		if res.Panic != "" {
			c.Violation(panicSig(res.Panic, res.Stack), "Interpret panicked: "+res.Panic, det())
			return cs
		}
		if res.Err == nil || res.Blocks != nil || res.Binding != nil || res.Out != "" {
			c.Violation("results-with-rejection", fmt.Sprintf("Interpret of a rejected source: err=%v blocks=%v binding=%v output=%q", res.Err, res.Blocks, res.Binding, res.Out), det())
			return cs
		}
	}
	c.Nontrivial(core.Hash(src))
	return cs
}

func c17Base(r *rand.Rand) []lang.Tok {
	cfgs := []lang.GenCfg{lang.CfgScope(), lang.CfgBlocks(), lang.CfgBind(), lang.CfgExpr()}
	for try := 0; try < 20; try++ {
		cfg := cfgs[r.Intn(len(cfgs))]
		cfg.MaxStmts = 3
		cfg.MaxBody = 2
		cfg.ExprDepth = 2
		cfg.MaxNest = 2
		cfg.PreDecl = false
		cfg.HostileLits = false
		cfg.CompileErrPct = 0
		cfg.ErrPct = 30 // types do not matter here
		g := lang.NewGen(r, cfg)
		toks := lang.Flatten(g.Program())
		if len(toks) >= 3 && len(toks) <= 25 {
			return toks
		}
	}
	return wordsToToks([]string{"var", "x", "=", "1", "def", "b", "{", "f", "=", "x", "+", "2", "}", "bind", "b", "->", "struct"})
}

func c17Edits(toks []lang.Tok, f func(edited []lang.Tok, tag string)) {
	cp := func() []lang.Tok { return append([]lang.Tok{}, toks...) }
	for p := 0; p <= len(toks); p++ {
		if p < len(toks) {
			f(append(append([]lang.Tok{}, toks[:p]...), toks[p+1:]...), fmt.Sprintf("delete@%d", p))
			if p+1 < len(toks) {
				t := cp()
				t[p], t[p+1] = t[p+1], t[p]
				f(t, fmt.Sprintf("transpose@%d", p))
			}
		}
		for _, v := range c17Vocab {
			f(append(append(append([]lang.Tok{}, toks[:p]...), v), toks[p:]...), fmt.Sprintf("insert %q@%d", v.Text, p))
			if p < len(toks) && v.Text != toks[p].Text {
				t := cp()
				t[p] = v
				f(t, fmt.Sprintf("replace %q@%d", v.Text, p))
			}
		}
	}
}

// ---- two-fault recovery

var c17LitExprs = [][]string{{"1"}, {"1", "+", "2"}, {"(", "1", "+", "2", ")", "*", "3"}, {`"s"`, "+", "1"}, {"not", "true"}, {"1", "<", "2", "and", "3"}, {"-", "1"}, {"2.5", "/", "(", "1", "-", "3", ")"}}

func c17Stmt(r *rand.Rand, kinds []string, varName string) []lang.Tok {
	e := c17LitExprs[r.Intn(len(c17LitExprs))]
	switch kinds[r.Intn(len(kinds))] {
	case "var":
		return wordsToToks(append([]string{"var", varName, "="}, e...))
	case "eval":
		return wordsToToks(append([]string{"eval"}, e...))
	case "def":
		return wordsToToks(append(append([]string{"def", "t", "{", "f", "="}, e...), "}"))
	}
	return wordsToToks(append([]string{"print"}, e...))
}

// fault-1 tokens: no statement keywords, no braces, no lexical failures
var c17Fault1 = append(wordsToToks([]string{"1", `"s"`, "x9", "=", "==", "+", "*", "(", ")", ":", "->", "and", "not", "true"}),
	lang.Tok{Kind: lang.TStr, Text: `"\q"`}, lang.Tok{Kind: lang.TInt, Text: "08"}, lang.Tok{Kind: lang.TStr, Text: `"\q"`})

func c17Mutate(r *rand.Rand, s []lang.Tok, vocab []lang.Tok, keepFirst bool) []lang.Tok {
	lo := 0
	if keepFirst {
		lo = 1
	}
	p := lo + r.Intn(len(s)-lo+1)
	v := vocab[r.Intn(len(vocab))]
	switch r.Intn(3) {
	case 0:
		if p < len(s) {
			return append(append([]lang.Tok{}, s[:p]...), s[p+1:]...)
		}
		fallthrough
	case 1:
		return append(append(append([]lang.Tok{}, s[:p]...), v), s[p:]...)
	}
	if p < len(s) {
		t := append([]lang.Tok{}, s...)
		t[p] = v
		return t
	}
	return append(append([]lang.Tok{}, s...), v)
}

func c17TwoFault(c *core.Ctx, i int64, r *rand.Rand, hostile bool) {
	var s0 []lang.Tok
	if r.Intn(2) == 0 {
		s0 = c17Stmt(r, []string{"var", "print", "def"}, "a0")
	}
	s1 := c17Stmt(r, []string{"var", "eval", "print"}, "a1")
	s2 := c17Stmt(r, []string{"var", "def", "eval", "print"}, "b2")
	var s3 []lang.Tok
	if r.Intn(2) == 0 {
		s3 = c17Stmt(r, []string{"var", "print", "def"}, "c3")
	}
	if r.Intn(3) == 0 {
		s1 = append(s1, lang.P(";"))
	}
	m1 := c17Mutate(r, s1, c17Fault1, true)
	m2 := c17Mutate(r, s2, c17Vocab[:len(c17Words)+4], true) // no lexical failures in fault 2 either (they end the parse)
	// fault 2 judged on its own (with what follows it)
	tail := append(append([]lang.Tok{}, m2...), s3...)
	_, v2 := lang.Parse(tail)
	if v2.Kind != lang.Reject || v2.LexFail {
		return
	}
	all := append(append(append([]lang.Tok{}, s0...), m1...), tail...)
	_, v := lang.Parse(all)
	off1 := len(s0)
	off2 := len(s0) + len(m1)
	if v.Kind != lang.Reject || v.At < off1 || v.At > off2 {
		return // fault 1 left statement 1 derivable (or is in the unspecified zone)
	}
	nv := c.Violations()
	cs := c17One(c, i, all, r, hostile, "two-fault")
	if c.Violations() > nv {
		return
	}
	src := cs.Laid.Src
	_, log, _, _, _ := ParseOnly(src, "in")
	c.Eval(1)
	diags, _, _ := ParseDiags(log)
	at2 := off2 + v2.At
	var want string
	if at2 >= len(all) {
		want = posString(src, len(src))
	} else {
		want = posString(src, cs.Laid.End[at2])
	}
	found := false
	for _, d := range diags[1:] {
		if fmt.Sprintf("%d:%d", d.Line, d.Col) == want {
			found = true
		}
	}
	c.Count("two_fault_programs", 1)
	if v.At < off2 {
		c.Count("two_fault_first_error_strictly_inside_statement_1", 1)
	} else {
		c.Count("two_fault_first_error_at_keyword_of_statement_2", 1)
	}
	if !found {
		c.Violation("later-error-hidden", fmt.Sprintf("the faulty statement after a faulty var/eval/print statement got no diagnostic of its own at %s; log=%q", want, log),
			map[string]any{"source": string(src), "source_q": fmt.Sprintf("%q", src), "log": log, "first_fault_token": v.At, "second_fault_token": at2})
		return
	}
	c.Nontrivial(core.Hash("2f", src))
}

func init() {
	core.Register(&core.Check{
		ID:    "C17",
		Level: "exploration",
		Rule: "recognizer monitor: an independent recursive-descent recognizer of the strict grammar with its static rules (DESIGN §5.2) gives accept / reject-at-token-k / unspecified for a token sequence; " +
			"bcl.Parse must accept exactly the accepted ones silently, reject the rejected ones with err != nil and a first 'line L:C: error' diagnostic at the end of token k, Interpret must return no results for them, and err != nil <=> diagnostics in every case. " +
			"Workload: all sequences of length <= 2 over a 55-token vocabulary, generated sentences (3-25 tokens) with EVERY single-token deletion, transposition, insertion and replacement by each vocabulary token (incl. value-less literals and lexer-failing tokens), random sequences, " +
			"and two-fault programs (fault in a var/eval/print statement, second fault in a later var/def/eval/print statement: a diagnostic at the second fault's predicted token is required). Layout calm and hostile. " +
			"distinct = hash of source; non-trivial = recognizer verdict definite The vocabulary includes an identifier starting with '_' (which may touch a preceding string literal); two-fault programs may use the same value-less literal in both statements. All calls of a worker go through ONE option slice built once and reused (before its first use a few calls are made through it with failing output and log writers: nothing may stick to the option values). Every rejected source is also parsed with statistics, disassembly and trace on: the error must still be non-nil. 12 sentences (and 6 edits of each) placed behind 48..135 KiB of code.",
		Assumptions:   []string{"DESIGN §5.2 is the grammar; 'not' as right operand of a tighter operator is unspecified (§5.3)"},
		MinNontrivial: 1000,
		Run: func(c *core.Ctx) {
			var i int64
			// (1) all sequences of length 0..2
			V := c17Vocab
			for a := -1; a < len(V); a++ {
				if c.Mine(i) {
					c.Begin(i)
					r := c.Rand(i)
					if a < 0 {
						c17One(c, i, nil, r, false, "len0")
					} else {
						c17One(c, i, []lang.Tok{V[a]}, r, false, "len1")
						for b := range V {
							c17One(c, i, []lang.Tok{V[a], V[b]}, r, false, "len2")
						}
					}
				}
				i++
			}
			// (2) sentences with every single-token edit
			nb := int64(c.Pick(90, 3000))
			for k := int64(0); k < nb; k++ {
				if c.Mine(i) {
					c.Idle()
					r := c.Rand(i)
					base := c17Base(r)
					c.Begin(i)
					hostile := k%3 == 2
					cs := c17One(c, i, base, r, hostile, "base")
					if cs.Verdict.Kind != lang.Accept {
						c.Inconclusive("harness: generated sentence not accepted by the reference recognizer")
					}
					c17Edits(base, func(ed []lang.Tok, tag string) {
						if c.Violations() < 20 {
							c17One(c, i, ed, r, hostile, tag)
						}
					})
					c.Count("sentences_fully_edited", 1)
					if c.WantSample() {
						c.Sample(map[string]any{"sentence": string(cs.Laid.Src), "tokens": len(base), "edits": "every delete/transpose/insert/replace"})
					}
				}
				i++
			}
			// (2') sentences that come late in a long program: behind 64 KiB and 128 KiB of code, and with single edits there
			for k, nfill := range []int{16000, 21000, 21800, 21840, 21846, 21850, 21900, 22000, 30000, 43690, 43700, 45000} {
				if c.Mine(i) {
					r := c.Rand(i)
					var toks []lang.Tok
					pr := wordsToToks([]string{"print"})[0]
					for f := 0; f < nfill; f++ {
						toks = append(toks, pr, lang.Tok{Kind: lang.TInt, Text: "12345"})
					}
					base := c17Base(r)
					for len(base) < 8 {
						base = append(base, c17Base(r)...)
					}
					c.Begin(i)
					cs := c17One(c, i, append(append([]lang.Tok{}, toks...), base...), r, false, "late-in-a-long-program")
					if cs.Verdict.Kind != lang.Accept {
						c.Inconclusive("harness: generated long sentence not accepted by the reference recognizer")
					}
					// a few edits of the late part
					for e := 0; e < 6; e++ {
						ed := c17Mutate(r, base, c17Vocab[:len(c17Words)+4], false)
						c17One(c, i, append(append([]lang.Tok{}, toks...), ed...), r, false, "late-in-a-long-program-edited")
					}
					c.Count("sentences_behind_64KiB_of_code", 1)
					_ = k
				}
				i++
			}
			// (3) random sequences
			nr := int64(c.Pick(30000, 1000000))
			for k := int64(0); k < nr; k++ {
				if c.Mine(i) {
					r := c.Rand(i)
					n := 3 + r.Intn(8)
					toks := make([]lang.Tok, n)
					for j := range toks {
						toks[j] = V[r.Intn(len(c17Words))]
					}
					c.Begin(i)
					c17One(c, i, toks, r, k%4 == 0, "random")
				}
				i++
			}
			// (4) two-fault recovery
			n2 := int64(c.Pick(40000, 1500000))
			for k := int64(0); k < n2; k++ {
				if c.Mine(i) {
					r := c.Rand(i)
					c.Begin(i)
					c17TwoFault(c, i, r, k%4 == 0)
				}
				i++
			}
		},
	})
}
