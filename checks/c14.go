package checks

import (
	"bytes"
	"encoding/json"
	"fmt"
	"math"
	"os"
	"path/filepath"
	"reflect"
	"sort"
	"strings"

	"github.com/wkhere/bcl"

	"verif/internal/bc"
	"verif/internal/core"
	"verif/internal/lang"
)

var corpusDir = core.Root + "/corpus"

// canon renders values/blocks/bindings deterministically with their Go types.
func canonValue(v any) string {
	switch x := v.(type) {
	case nil:
		return "nil"
	case int:
		return fmt.Sprintf("int:%d", x)
	case float64:
		return fmt.Sprintf("float:%016x", math.Float64bits(x))
	case string:
		return fmt.Sprintf("str:%q", x)
	case bool:
		return fmt.Sprintf("bool:%v", x)
	case bcl.Block:
		return canonBlock(x)
	}
	switch reflect.ValueOf(v).Kind() {
	case reflect.Pointer, reflect.Chan, reflect.Func, reflect.UnsafePointer:
		return fmt.Sprintf("?%T", v) // no addresses in descriptions
	}
	return fmt.Sprintf("?%T:%v", v, v)
}

func canonBlock(b bcl.Block) string {
	keys := make([]string, 0, len(b.Fields))
	for k := range b.Fields {
		keys = append(keys, k)
	}
	sort.Strings(keys)
	var sb strings.Builder
	fmt.Fprintf(&sb, "block(%q,%q){", b.Type, b.Name)
	for i, k := range keys {
		if i > 0 {
			sb.WriteString(",")
		}
		fmt.Fprintf(&sb, "%q=%s", k, canonValue(b.Fields[k]))
	}
	sb.WriteString("}")
	return sb.String()
}

func canonBlocks(bs []bcl.Block) string {
	var parts []string
	for _, b := range bs {
		parts = append(parts, canonBlock(b))
	}
	return "[" + strings.Join(parts, ";") + "]"
}

func canonBinding(b bcl.Binding) string {
	switch x := b.(type) {
	case nil:
		return "none"
	case bcl.StructBinding:
		return "struct:" + canonBlock(x.Value)
	case bcl.SliceBinding:
		return "slice:" + canonBlocks(x.Value)
	}
	return fmt.Sprintf("?%T", b)
}

type corpusExpect struct {
	File    string `json:"file"`
	Origin  string `json:"origin"` // compiled | hand-assembled
	Source  string `json:"source,omitempty"`
	Note    string `json:"note,omitempty"`
	LoadErr bool   `json:"load_error"`
	Disasm  string `json:"disasm"`
	Output  string `json:"output"`
	Log     string `json:"log"`
	Blocks  string `json:"blocks"`
	Binding string `json:"binding"`
	Error   string `json:"error"`
}

func corpusRun(data []byte, name string, oneByte bool) (e corpusExpect, pan string) {
	var r = bytes.NewReader(data)
	var p *bcl.Prog
	var o observed
	var err error
	if oneByte {
		p, o, err, pan, _ = observeLoaded(&chunkReader{data: data, rest: 1}, name)
	} else {
		p, o, err, pan, _ = observeLoaded(r, name)
	}
	_ = p
	if pan != "" {
		return e, pan
	}
	if err != nil {
		e.LoadErr = true
		e.Error = err.Error()
		return e, ""
	}
	if o.exec.pan != "" {
		return e, o.exec.pan
	}
	e.Disasm = o.disasm
	e.Output, e.Log, e.Error = o.exec.out, o.exec.log, o.exec.err
	e.Blocks = canonBlocks(o.exec.blocks)
	e.Binding = canonBinding(o.exec.binding)
	return e, ""
}

// ---- corpus construction (run once: bclverif mkcorpus)

type asm struct {
	code []byte
}

func (a *asm) op(o byte, operands ...int) *asm {
	a.code = append(a.code, o)
	for _, x := range operands {
		a.code = bc.PutUvarint(a.code, uint64(x))
	}
	return a
}

func (a *asm) raw(b ...byte) *asm { a.code = append(a.code, b...); return a }

func handFile(name string, code []byte, consts []any, lfs []int) []byte {
	f := &bc.File{Major: 1, Minor: 1, Name: name, Code: code, Constants: consts, LineFeeds: lfs}
	for i := range code {
		f.Positions = append(f.Positions, i+1)
	}
	return bc.Encode(f)
}

type corpusItem struct {
	file, origin, source, note string
	data                       []byte
	handOutput                 *string // independently known output for hand-assembled files
}

func corpusSources() []string {
	l := []string{
		"print 1",
		"print 0\nprint 1\nprint 2\nprint 1.5\nprint \"s\"\nprint true\nprint false\nprint nil",
		"print 1+2*3-4/2\nprint 7/2\nprint 7.0/2\nprint -3\nprint +3\nprint -2.5",
		"print 1<2\nprint 1<=2\nprint 1>2\nprint 1>=2\nprint 1==1.0\nprint 1!=2\nprint \"a\"<\"b\"\nprint \"a\"==\"a\"\nprint nil==nil\nprint nil==false",
		"print not 1\nprint not \"\"\nprint 0 and 1\nprint 2 and 3\nprint 0 or \"x\"\nprint 5 or 6\nprint 1 and 0 or 7",
		"print \"ab\"+\"cd\"\nprint \"n\"+1\nprint \"f\"+2.5\nprint \"x\"+nil\nprint \"ab\"*3\nprint \"ab\"*0",
		"var x = 1\nvar y\nprint x\nprint y\neval x = x + 1\nprint x\nvar s = \"t\"\neval y = s * 2\nprint y",
		"var x = 10\ndef blk \"name\" {\n  f = x\n  var x = 2\n  g = x\n  def inner { h = f + g; t = TYPE; n = NAME }\n  t = TYPE\n  n = NAME\n}\nprint x",
		"def a { x = 1 }\ndef a \"two\" { x = 2 }\ndef b { y = \"why\" }\nbind a:first -> struct",
		"def a { x = 1 }\ndef a \"two\" { x = 2 }\nbind a:last -> struct",
		"def a { x = 1 }\ndef a \"two\" { x = 2 }\nbind a:all -> slice",
		"def a { x = 1 }\nbind a -> struct\nbind a:1 -> slice\nbind a:first -> slice\nbind a:last -> slice",
		"def a { x = 1 }\ndef a { x = 2 }\nbind a -> struct",
		"def a { x = 1 }\nbind zzz -> struct",
		"print 1/0",
		"print 1 + \"s\"",
		"def a { x = y }",
		"def a { def c {} def c {} }",
		"print -\"s\"",
		"def p { def c \"k\" { v = 1.25 } def c \"l\" { v = true } w = nil }\nprint 1",
		"var a = 1 var b = 2 var c = 3\ndef q { var d = 4 var e = 5 z = a+b+c+d+e }\nprint a",
		"def t { s = \"é漢字😀\" + \"\\t\\\"q\\\"\\\\\" }",
		"print 9223372036854775807\nprint 0x7fffffffffffffff\nprint 017\nprint 1e308\nprint 4.9e-324\nprint 123456789.125",
		"print 1\n\n\n# comment\nprint 2 + \"x\"",
		"print \"" + strOfLen(240, nil) + "\"",
		"print \"" + strOfLen(241, nil) + "\"",
		"print \"" + strOfLen(2287, nil) + "\"",
		"print \"" + strOfLen(2288, nil) + "\"",
		"print \"" + strOfLen(4000, nil) + "\"",
	}
	// > 240 and > 2287 constants, > 240 locals
	var b strings.Builder
	for k := 0; k < 250; k++ {
		fmt.Fprintf(&b, "print %d.5\n", k)
	}
	l = append(l, b.String())
	b.Reset()
	for k := 0; k < 2300; k++ {
		fmt.Fprintf(&b, "eval \"c%d\"\n", k)
	}
	b.WriteString("print \"last\"\n")
	l = append(l, b.String())
	b.Reset()
	for k := 0; k < 260; k++ {
		fmt.Fprintf(&b, "var v%d = %d\n", k, k)
	}
	b.WriteString("print v0 + v250 + v259\neval v255 = 1000\nprint v255\n")
	l = append(l, b.String())
	// long jump
	l = append(l, "print 0 and (1"+strings.Repeat("+1", 400)+")\nprint 1 and (1"+strings.Repeat("+1", 400)+")\nprint 3 or (1"+strings.Repeat("+1", 400)+")")
	// positions beyond 67823
	l = append(l, strings.Repeat("# ........................................................................\n", 1000)+"print 1 + \"late\"\n")
	// jump distances beyond 32767 (the operand is an unsigned 16-bit number), taken and not taken
	l = append(l, "print 1 or (1"+strings.Repeat("+1", 17000)+")\nprint 0 or (1"+strings.Repeat("+1", 17000)+")\nprint 0 and (1"+strings.Repeat("+1", 30000)+")\nprint 2 and (1"+strings.Repeat("+1", 30000)+")\n")
	return l
}

func corpusItems() ([]corpusItem, error) {
	var items []corpusItem
	for i, src := range corpusSources() {
		var lg bytes.Buffer
		p, err := bcl.Parse([]byte(src), fmt.Sprintf("corpus%02d.bcl", i), bcl.OptLogger(&lg), bcl.OptOutput(&lg))
		if err != nil {
			return nil, fmt.Errorf("corpus source %d does not parse: %s", i, lg.String())
		}
		d, derr, pan, _ := dumpOf(p)
		if derr != nil || pan != "" {
			return nil, fmt.Errorf("corpus source %d cannot be dumped: %v %s", i, derr, pan)
		}
		items = append(items, corpusItem{file: fmt.Sprintf("c%02d.bcb", i), origin: "compiled", source: core.Trunc(src, 300), data: d})
	}
	s := func(x string) *string { return &x }
	hand := func(name, note string, data []byte, out *string) {
		items = append(items, corpusItem{file: name, origin: "hand-assembled", note: note, data: data, handOutput: out})
	}
	// negative ints, bools, nil, big ints through CONST
	consts := []any{-1, -300, math.MinInt64, math.MaxInt64, true, false, nil, 2.5, "s", 1 << 40, -(1 << 40)}
	a := &asm{}
	for k := range consts {
		a.op(bc.CONST, k).op(bc.PRINT)
	}
	a.op(bc.RET)
	hand("h01-const-kinds.bcb", "negative/extreme ints, bools and nil as constants", handFile("h01", a.code, consts, nil),
		s("-1\n-300\n-9223372036854775808\n9223372036854775807\ntrue\nfalse\n<nil>\n2.5\ns\n1099511627776\n-1099511627776\n"))
	// NOP and a terminating LOOP
	a = &asm{}
	a.op(bc.NOP).raw(bc.JUMP, 0, 5).op(bc.ONE).op(bc.PRINT).raw(bc.JUMP, 0, 5).op(bc.TRUE).op(bc.PRINT).raw(bc.LOOP, 0, 10).op(bc.NOP).op(bc.RET)
	// offsets: 0 NOP, 1 JUMP(->9), 4 ONE, 5 PRINT, 6 JUMP(->14), 9 TRUE, 10 PRINT, 11 LOOP(->4), 14 NOP, 15 RET
	hand("h02-nop-loop.bcb", "NOP, forward JUMPs and a backward LOOP that terminates", handFile("h02", a.code, nil, nil), s("true\n1\n"))
	// every bind byte
	for _, bb := range []byte{0x11, 0x12, 0x13, 0x21, 0x22, 0x23, 0x2F} {
		a = &asm{}
		cs := []any{"t", "", "one", "two", "x"}
		// def t "one" { x = 1 }  def t "two" { x = 0 }  bind
		a.op(bc.DEFBLOCK, 0, 2).op(bc.ONE).op(bc.SETFIELD, 4).op(bc.POP).op(bc.ENDBLOCK)
		if bb&0x0F != 1 {
			a.op(bc.DEFBLOCK, 0, 3).op(bc.ZERO).op(bc.SETFIELD, 4).op(bc.POP).op(bc.ENDBLOCK)
		}
		a.op(bc.BIND, 0).raw(bb).op(bc.RET)
		hand(fmt.Sprintf("h03-bind-%02x.bcb", bb), fmt.Sprintf("BIND with option byte 0x%02X", bb), handFile("h03", a.code, cs, nil), s(""))
	}
	// bind bytes that mean nothing (with two candidate blocks present): the recorded outcome is an error
	for _, bb := range []byte{0x1F, 0x10, 0x14, 0x2E, 0x31, 0x00, 0xFF, 0x01, 0xF1} {
		a = &asm{}
		cs := []any{"t", "", "one", "two", "x"}
		a.op(bc.DEFBLOCK, 0, 2).op(bc.ONE).op(bc.SETFIELD, 4).op(bc.POP).op(bc.ENDBLOCK)
		a.op(bc.DEFBLOCK, 0, 3).op(bc.ZERO).op(bc.SETFIELD, 4).op(bc.POP).op(bc.ENDBLOCK)
		a.op(bc.BIND, 0).raw(bb).op(bc.ONE).op(bc.PRINT).op(bc.RET)
		hand(fmt.Sprintf("h14-bind-invalid-%02x.bcb", bb), fmt.Sprintf("BIND with the meaningless option byte 0x%02X", bb), handFile("h14", a.code, cs, []int{3}), nil)
	}
	// 2- and 3-byte varint operands
	var many []any
	for k := 0; k < 2400; k++ {
		many = append(many, k*3)
	}
	a = &asm{}
	for _, k := range []int{0, 240, 241, 500, 2287, 2288, 2399} {
		a.op(bc.CONST, k).op(bc.PRINT)
	}
	a.op(bc.RET)
	hand("h04-wide-operands.bcb", "CONST operands in the 1-, 2- and 3-byte varint classes", handFile("h04", a.code, many, []int{10, 300, 70000}),
		s("0\n720\n723\n1500\n6861\n6864\n7197\n"))
	// every opcode 0..30 in one program
	a = &asm{}
	cs := []any{"t", "", "f", 7, "g"}
	a.op(bc.NOP).op(bc.NIL).op(bc.ZERO).op(bc.ONE).op(bc.TRUE).op(bc.FALSE) // 5 values
	a.op(bc.POPN, 3)                                                        // nil 0
	a.op(bc.CONST, 3).op(bc.ADD)                                            // nil 7
	a.op(bc.GETLOCAL, 1).op(bc.SETLOCAL, 0).op(bc.POP)                      // 7 7
	a.op(bc.DEFBLOCK, 0, 1)
	a.op(bc.GETLOCAL, 0).op(bc.SETFIELD, 2).op(bc.POP) // f = 7
	a.op(bc.GETFIELD, 2).op(bc.NEG).op(bc.UNPLUS).op(bc.CONST, 3).op(bc.SUB).op(bc.CONST, 3).op(bc.MUL).op(bc.CONST, 3).op(bc.DIV)
	a.op(bc.SETFIELD, 4).op(bc.PRINT) // g = ((-7 - 7) * 7) / 7 = -14
	a.op(bc.ENDBLOCK)
	a.op(bc.GETLOCAL, 0).op(bc.GETLOCAL, 1).op(bc.EQ).op(bc.NOT).op(bc.PRINT)   // false
	a.op(bc.GETLOCAL, 0).op(bc.ONE).op(bc.LT).op(bc.PRINT)                      // false
	a.op(bc.GETLOCAL, 0).op(bc.ONE).op(bc.GT).raw(bc.JFALSE, 0, 1).op(bc.PRINT) // true (printed: jump not taken)
	a.raw(bc.JUMP, 0, 3).raw(bc.LOOP, 0, 0)                                     // JUMP over a LOOP instruction
	a.op(bc.BIND, 0).raw(0x11)
	a.op(bc.POPN, 2).op(bc.RET)
	hand("h05-every-opcode.bcb", "every opcode 0..30 at least once", handFile("h05", a.code, cs, nil), s("-14\nfalse\nfalse\ntrue\n"))
	// instructions that fail after their operands were read: the error position is that of the last byte read
	// (every code byte of a hand-assembled file has a position of its own)
	var wide []any
	wide = append(wide, "t", "")
	for k := 2; k < 2300; k++ {
		wide = append(wide, fmt.Sprintf("name%d", k))
	}
	a = &asm{}
	a.op(bc.DEFBLOCK, 0, 1).op(bc.GETFIELD, 241).op(bc.POP).op(bc.ENDBLOCK).op(bc.RET)
	hand("h07-getfield-unresolved-2-byte-operand.bcb", "GETFIELD of an unresolved name through a 2-byte operand", handFile("h07", a.code, wide, []int{3}), s(""))
	a = &asm{}
	a.op(bc.DEFBLOCK, 0, 1).op(bc.GETFIELD, 2290).op(bc.POP).op(bc.ENDBLOCK).op(bc.RET)
	hand("h07-getfield-unresolved-3-byte-operand.bcb", "GETFIELD of an unresolved name through a 3-byte operand", handFile("h07", a.code, wide, []int{2, 5}), s(""))
	a = &asm{}
	a.op(bc.NOP).op(bc.NOP).op(bc.BIND, 0).raw(0x11).op(bc.RET)
	hand("h08-bind-no-blocks.bcb", "BIND without any block of the type", handFile("h08", a.code, []any{"t"}, []int{1}), s(""))
	a = &asm{}
	a.op(bc.DEFBLOCK, 0, 1).op(bc.ENDBLOCK).op(bc.DEFBLOCK, 0, 1).op(bc.ENDBLOCK).op(bc.BIND, 0).raw(0x11).op(bc.RET)
	hand("h09-bind-one-of-two.bcb", "BIND of exactly one block where two exist", handFile("h09", a.code, []any{"t", ""}, []int{4, 8}), s(""))
	a = &asm{}
	a.op(bc.DEFBLOCK, 0, 1).op(bc.ENDBLOCK).op(bc.BIND, 0).raw(0x11).op(bc.NOP).op(bc.BIND, 0).raw(0x21).op(bc.RET)
	hand("h10-repeated-bind.bcb", "a second BIND (warning with a position)", handFile("h10", a.code, []any{"t", ""}, []int{5}), s(""))
	a = &asm{}
	a.op(bc.CONST, 2295).op(bc.NEG).op(bc.PRINT).op(bc.RET)
	hand("h11-neg-of-string-after-3-byte-operand.bcb", "NEG applied to a string constant fetched through a 3-byte operand", handFile("h11", a.code, wide, []int{1, 2, 3}), s(""))
	a = &asm{}
	a.op(bc.ONE).op(bc.PRINT).op(bc.ONE).op(bc.ZERO).op(bc.DIV).op(bc.PRINT).op(bc.RET)
	hand("h12-division-by-zero.bcb", "output, then a runtime error at a one-byte instruction", handFile("h12", a.code, nil, []int{2, 4}), s("1\n"))
	a = &asm{}
	a.op(bc.DEFBLOCK, 0, 1).op(bc.DEFBLOCK, 2, 1).op(bc.ENDBLOCK).op(bc.DEFBLOCK, 2, 1).op(bc.ENDBLOCK).op(bc.ENDBLOCK).op(bc.RET)
	hand("h13-duplicate-child.bcb", "two children with the same key", handFile("h13", a.code, []any{"t", "", "c"}, []int{6}), s(""))
	// minor version 0
	f0 := &bc.File{Major: 1, Minor: 0, Name: "v10", Code: []byte{bc.ONE, bc.PRINT, bc.RET}, Positions: []int{1, 1, 1}}
	hand("h06-version-1.0.bcb", "a file declaring minor version 0", bc.Encode(f0), s("1\n"))
	return items, nil
}

// MakeCorpus records the corpus into dir (run once, output committed).
func MakeCorpus(dir string) error {
	items, err := corpusItems()
	if err != nil {
		return err
	}
	os.MkdirAll(dir, 0o755)
	var exp []corpusExpect
	for _, it := range items {
		e, pan := corpusRun(it.data, it.file, false)
		if pan != "" {
			return fmt.Errorf("%s: panic while recording: %s", it.file, pan)
		}
		if e.LoadErr {
			return fmt.Errorf("%s: does not load: %s", it.file, e.Error)
		}
		if it.handOutput != nil && e.Output != *it.handOutput {
			return fmt.Errorf("%s: recorded output %q differs from the hand-derived expectation %q (error %q)", it.file, e.Output, *it.handOutput, e.Error)
		}
		if _, derr := bc.Decode(it.data); derr != nil {
			return fmt.Errorf("%s: independent decoder: %v", it.file, derr)
		}
		e.File, e.Origin, e.Source, e.Note = it.file, it.origin, it.source, it.note
		exp = append(exp, e)
		if err := os.WriteFile(filepath.Join(dir, it.file), it.data, 0o644); err != nil {
			return err
		}
	}
	data, _ := json.MarshalIndent(exp, "", " ")
	return os.WriteFile(filepath.Join(dir, "expect.json"), data, 0o644)
}

func init() {
	core.Register(&core.Check{
		ID:    "C14",
		Level: "exploration",
		Rule: "offline checker over recorded artefacts + independent codec: (a) every file of the committed corpus (recorded from the pinned build, plus hand-assembled files for what the compiler cannot emit: negative ints/bools/nil constants, NOP, LOOP, every bind byte, 1/2/3-byte varint operands, every opcode 0..30, version 1.0) is loaded through a whole-slice and a one-byte reader and executed; disassembly, output, warnings, blocks, binding and error must equal the recording; the independent decoder must parse it and the independent encoder reproduce it; " +
			"(b) the dump of every generated program must be parsed by the independent decoder (written from the format comment and the sqlite4 varint document: magic FC 6C, version, name, code, typed constants, positions, line table, big-endian 16-bit jump operands) into exactly the program's in-memory parts, and re-encoded byte for byte; the instruction stream must decode with the recorded opcode numbering. " +
			"distinct = corpus file name or hash of dump; non-trivial = file loaded / dump decoded The fresh-dump part also covers the size-directed list (every varint class boundary, 160 kB of code, 70000 lines, a source beyond 16 MiB): decode, re-encode, and the dump must load. Also: hand-assembled files whose instructions fail after their operands were read (GETFIELD through 2- and 3-byte operands, BIND without / with too many blocks, a repeated BIND warning, NEG of a string, division by zero, a duplicate child) with a position of its own on every code byte and line feeds between them: the recorded line:column is that of the last byte read; size-directed dumps are also written into a destination that takes only part of each write (Dump must report it or the destination must hold the whole dump).",
		Assumptions:   []string{"corpus/expect.json was recorded from the pinned build's behaviour (cross-checked against a build of commit d0f6a51, see DESIGN §7)", "internal/bc is the written-down meaning of format 1.1"},
		MinNontrivial: 40,
		Run: func(c *core.Ctx) {
			data, err := os.ReadFile(filepath.Join(corpusDir, "expect.json"))
			var exp []corpusExpect
			if err != nil || json.Unmarshal(data, &exp) != nil {
				c.Inconclusive("corpus/expect.json unreadable")
				return
			}
			var i int64
			for _, e := range exp {
				if c.Mine(i) {
					c.Begin(i)
					raw, err := os.ReadFile(filepath.Join(corpusDir, e.File))
					if err != nil {
						c.Inconclusive("corpus file missing: " + e.File)
					} else {
						c14File(c, e, raw)
					}
				}
				i++
			}
			// size-directed programs: every varint class boundary, long code: decode, re-encode and load
			for _, f := range c09FixedList() {
				if c.Mine(i) {
					c.Begin(i)
					src := []byte(f.src())
					var lg bytes.Buffer
					if p, err := bcl.Parse(src, f.name, bcl.OptLogger(&lg), bcl.OptOutput(&lg)); err == nil {
						c.Eval(1)
						d, derr, pan, _ := dumpOf(p)
						switch {
						case derr != nil || pan != "":
							c.Violation("dump-fails", fmt.Sprintf("Dump failed (%s): %v %s", f.tag, derr, pan), nil)
						default:
							if why := decoderAgrees(d, p); why != "" {
								c.Violation("dump-layout:"+stripDigits(core.Trunc(why, 40)), "fresh dump ("+f.tag+") does not follow the documented layout: "+why, map[string]any{"source_len": len(src)})
							} else if _, _, lerr, lpan, _ := observeLoaded(bytes.NewReader(d), "x"); lerr != nil || lpan != "" {
								c.Violation("fresh-dump-does-not-load", fmt.Sprintf("a fresh dump (%s, %d bytes) that follows the layout is refused by the loader: %v %s", f.tag, len(d), lerr, lpan), nil)
							} else {
								// a destination that takes only part of a write: Dump reports it, or everything was taken
								for _, lim := range []int{1, 100, 1000, 4095, 4096, 5000} {
									w := &partWriter{limit: lim}
									var e2 error
									pan2, _ := protect(func() { e2 = p.Dump(w) })
									c.Eval(1)
									if pan2 != "" || (e2 == nil && !bytes.Equal(w.got, d)) {
										c.Violation("dump-truncated-silently", fmt.Sprintf("Dump (%s) into a destination taking at most %d bytes per write returned %v %s, the destination holds %d of %d bytes", f.tag, lim, e2, pan2, len(w.got), len(d)), nil)
										break
									}
									c.Count("dumps_into_a_destination_taking_partial_writes", 1)
								}
								c.Count("size_directed_dumps_decoded_reencoded_loaded", 1)
								c.Nontrivial(core.Hash(d))
							}
						}
					}
				}
				i++
			}
			n := int64(c.Pick(20000, 6000000))
			for k := int64(0); k < n; k++ {
				if c.Mine(i) {
					c.Idle()
					r := c.Rand(i)
					cfg := randProfile(r)
					cfg.CompileErrPct = 0
					g := lang.NewGen(r, cfg)
					src := lang.Layout(lang.Flatten(g.Program()), calmLayout(r), r).Src
					c.Begin(i)
					var lg bytes.Buffer
					p, err := bcl.Parse(src, "n", bcl.OptLogger(&lg), bcl.OptOutput(&lg))
					c.Eval(1)
					if err != nil {
						i++
						continue
					}
					d, derr, pan, _ := dumpOf(p)
					if derr != nil || pan != "" {
						c.Violation("dump-fails", fmt.Sprintf("Dump failed: %v %s", derr, pan), map[string]any{"source": string(src)})
						i++
						continue
					}
					if why := decoderAgrees(d, p); why != "" {
						c.Violation("dump-layout:"+stripDigits(core.Trunc(why, 40)), "fresh dump does not follow the documented layout: "+why, map[string]any{"source": string(src), "dump_hex": core.Trunc(fmt.Sprintf("% x", d), 3000)})
						i++
						continue
					}
					f, _ := bc.Decode(d)
					if _, ierr := bc.Instructions(f.Code); ierr != nil {
						c.Violation("code-encoding", "code section does not decode with the recorded instruction set: "+ierr.Error(), map[string]any{"source": string(src)})
						i++
						continue
					}
					c.Count("fresh_dumps_decoded_and_reencoded", 1)
					c.Nontrivial(core.Hash(d))
				}
				i++
			}
		},
	})
}

// partWriter takes at most limit bytes of each write and says so in the count only.
type partWriter struct {
	limit int
	got   []byte
}

func (w *partWriter) Write(p []byte) (int, error) {
	n := min(len(p), w.limit)
	w.got = append(w.got, p[:n]...)
	return n, nil
}

// CorpusCrossCheck replays every corpus file through a whole-slice reader with the build at hand and
// prints the files whose meaning differs from the recording (used to replay the corpus against a build
// of the pinned commit: `bclverif corpuscheck`).
func CorpusCrossCheck(dir string) (same, differ int) {
	data, err := os.ReadFile(filepath.Join(dir, "expect.json"))
	if err != nil {
		fmt.Println(err)
		return 0, 1
	}
	var exp []corpusExpect
	if err := json.Unmarshal(data, &exp); err != nil {
		fmt.Println(err)
		return 0, 1
	}
	for _, e := range exp {
		raw, err := os.ReadFile(filepath.Join(dir, e.File))
		if err != nil {
			fmt.Println(err)
			differ++
			continue
		}
		got, pan := corpusRun(raw, e.File, false)
		got.File, got.Origin, got.Source, got.Note = e.File, e.Origin, e.Source, e.Note
		if pan != "" || got != e {
			fmt.Printf("DIFFERS %s: panic=%q\n  got      %+v\n  recorded %+v\n", e.File, pan, got, e)
			differ++
			continue
		}
		same++
	}
	fmt.Printf("corpus cross-check: %d identical, %d different\n", same, differ)
	return same, differ
}

func c14File(c *core.Ctx, e corpusExpect, raw []byte) {
	det := map[string]any{"file": e.File, "origin": e.Origin, "note": e.Note, "source": e.Source}
	f, derr := bc.Decode(raw)
	if derr != nil {
		c.Inconclusive("corpus file does not decode with the independent decoder: " + e.File + ": " + derr.Error())
		return
	}
	if !bytes.Equal(bc.Encode(f), raw) {
		c.Inconclusive("independent encoder does not reproduce corpus file " + e.File)
		return
	}
	for mode := 0; mode < 2; mode++ {
		got, pan := corpusRun(raw, e.File, mode == 1)
		c.Eval(1)
		rd := []string{"whole", "one-byte"}[mode]
		if pan != "" {
			c.Violation("corpus-panic", fmt.Sprintf("%s (%s reader): panic %s", e.File, rd, pan), det)
			return
		}
		diff := ""
		switch {
		case got.LoadErr:
			diff = "no longer loads: " + got.Error
		case got.Disasm != e.Disasm:
			diff = "disassembly changed: " + firstDiff(e.Disasm, got.Disasm)
		case got.Output != e.Output:
			diff = fmt.Sprintf("output %q, recorded %q", core.Trunc(got.Output, 200), core.Trunc(e.Output, 200))
		case got.Log != e.Log:
			diff = fmt.Sprintf("log %q, recorded %q", got.Log, e.Log)
		case got.Error != e.Error:
			diff = fmt.Sprintf("error %q, recorded %q", got.Error, e.Error)
		case got.Blocks != e.Blocks:
			diff = fmt.Sprintf("blocks %s, recorded %s", core.Trunc(got.Blocks, 300), core.Trunc(e.Blocks, 300))
		case got.Binding != e.Binding:
			diff = fmt.Sprintf("binding %s, recorded %s", core.Trunc(got.Binding, 300), core.Trunc(e.Binding, 300))
		}
		if diff != "" {
			c.Violation("corpus:"+e.File, fmt.Sprintf("recorded file %s (%s reader) means something else now: %s", e.File, rd, diff), det)
			return
		}
	}
	c.Count("corpus_files_replayed", 1)
	c.Count("corpus_files_"+strings.ReplaceAll(e.Origin, "-", "_"), 1)
	c.Nontrivial(core.Hash("corpus", e.File))
	if c.WantSample() {
		c.Sample(map[string]any{"file": e.File, "origin": e.Origin, "note": e.Note, "bytes": len(raw), "recorded_output": core.Trunc(e.Output, 80), "recorded_error": e.Error})
	}
}
