package checks

import (
	"bytes"
	"fmt"
	"math"
	"math/rand"
	"reflect"
	"strconv"
	"strings"
	"unicode"

	"github.com/wkhere/bcl"

	"verif/internal/core"
	"verif/internal/lang"
)

// ---- the harness's own matching rule (DESIGN §6 C05): tag first, else equal
// ignoring case after removing underscores from the BCL key.

func foldKey(s string) string { return strings.ToLower(strings.ReplaceAll(s, "_", "")) }

// fieldFor finds the struct field a BCL key designates (fields promoted from
// embedded structs included, by name); ambiguous=true when more than one
// field qualifies by name. idx is the position in reflect.VisibleFields(t).
func fieldFor(t reflect.Type, key string) (idx int, found, ambiguous bool) {
	vf := reflect.VisibleFields(t)
	for i, f := range vf {
		if len(f.Index) == 1 {
			if tag := f.Tag.Get("bcl"); tag != "" && tag == key {
				return i, true, false
			}
		}
	}
	base := key
	if k := strings.Index(key, "."); k >= 0 {
		base = key[:k]
	}
	n := 0
	for i, f := range vf {
		if strings.EqualFold(f.Name, strings.ReplaceAll(base, "_", "")) {
			if n == 0 {
				idx = i
			}
			n++
		}
	}
	return idx, n >= 1, n > 1
}

// ---- type generation

var goNameParts = []string{"Bind", "Not", "Or", "And", "Print", "True", "False", "Nil", "Var", "Def", "Eval", "Struct", "Slice", "First", "Last", "All", "Host", "Port", "Local", "Remote", "Max", "Latency", "Enabled", "Id", "URL", "Count", "Mode", "Level", "Path", "User", "X", "Y", "Value", "Ratio", "Flag", "Label", "A", "B2", "Zed"}

type typeGen struct {
	r     *rand.Rand
	depth int
}

func (g *typeGen) fieldName(used map[string]bool) string {
	for {
		n := 1 + g.r.Intn(3)
		var b strings.Builder
		for i := 0; i < n; i++ {
			b.WriteString(goNameParts[g.r.Intn(len(goNameParts))])
		}
		name := b.String()
		f := foldKey(name)
		if f == "name" || used[f] {
			continue
		}
		used[f] = true
		return name
	}
}

// snakeSpelling gives one of the key spellings admitted by the rule for a Go name.
func snakeSpelling(r *rand.Rand, goName string) string {
	var words []string
	cur := ""
	rs := []rune(goName)
	for i, c := range rs {
		if i > 0 && unicode.IsUpper(c) && (unicode.IsLower(rs[i-1]) || unicode.IsDigit(rs[i-1]) || (i+1 < len(rs) && unicode.IsLower(rs[i+1]))) {
			words = append(words, cur)
			cur = ""
		}
		cur += string(c)
	}
	words = append(words, cur)
	switch r.Intn(7) {
	case 0:
		return strings.ToLower(strings.Join(words, "_"))
	case 1:
		return strings.ToLower(strings.Join(words, ""))
	case 2:
		return strings.ToUpper(strings.Join(words, "_"))
	case 3:
		return goName
	case 4:
		return "_" + strings.ToLower(strings.Join(words, "__")) + "_"
	case 5:
		// underscores anywhere
		var b strings.Builder
		for _, c := range strings.ToLower(strings.Join(words, "")) {
			b.WriteRune(c)
			if r.Intn(4) == 0 {
				b.WriteByte('_')
			}
		}
		return b.String()
	}
	// camel with a lower first letter
	return strings.ToLower(goName[:1]) + goName[1:]
}

var tagPool = []string{"my_tag", "t1", "x_y_z", "Weird_Tag", "tag2", "ZZ", "the_field", "q"}

// structType builds a struct type of the supported family.
func (g *typeGen) structType(depth int) reflect.Type {
	r := g.r
	used := map[string]bool{}
	usedTags := map[string]bool{}
	n := 1 + r.Intn(8)
	if r.Intn(6) == 0 {
		n = 9 + r.Intn(4)
	}
	if depth == 1 && r.Intn(40) == 0 {
		n = []int{31, 32, 33, 63, 64, 65, 66, 100, 130}[r.Intn(9)] // wide structs
	}
	var fs []reflect.StructField
	nameAt := -1
	if r.Intn(4) > 0 {
		nameAt = r.Intn(n + 1)
	}
	for i := 0; i <= n; i++ {
		if i == nameAt {
			nm := []string{"Name", "Name", "Name", "NAME", "NaMe"}[r.Intn(5)]
			fs = append(fs, reflect.StructField{Name: nm, Type: reflect.TypeOf("")})
			continue
		}
		if i == n {
			break
		}
		var t reflect.Type
		switch k := r.Intn(10); {
		case k < 3:
			t = reflect.TypeOf(int(0))
		case k < 5:
			t = reflect.TypeOf(float64(0))
		case k < 7:
			t = reflect.TypeOf("")
		case k < 9 || depth >= 4:
			t = reflect.TypeOf(false)
		default:
			t = g.structType(depth + 1)
		}
		f := reflect.StructField{Name: g.fieldName(used), Type: t}
		if t.Kind() != reflect.Struct && len(fs) > 0 && r.Intn(12) == 0 {
			// the tag spells exactly the Go name of an earlier sibling: the tag wins for that key
			sib := fs[r.Intn(len(fs))]
			if sib.Tag == "" && !usedTags[sib.Name] && !strings.EqualFold(sib.Name, "name") {
				usedTags[sib.Name] = true
				f.Tag = reflect.StructTag(`bcl:"` + sib.Name + `"`)
			}
		} else if t.Kind() != reflect.Struct && r.Intn(4) == 0 {
			for try := 0; try < 5; try++ {
				tag := tagPool[r.Intn(len(tagPool))]
				if !usedTags[tag] && !used[foldKey(tag)] {
					usedTags[tag] = true
					used[foldKey(tag)] = true // no other field may be reachable by this key
					f.Tag = reflect.StructTag(`bcl:"` + tag + `"`)
					break
				}
			}
		}
		fs = append(fs, f)
	}
	return reflect.StructOf(fs)
}

// named types (the type name must match the block type)
type Tunnel struct {
	Name       string
	Host       string
	LocalPort  int
	RemotePort int
	Enabled    bool
	Extras     struct {
		MaxLatency float64
	}
}

type HTTPServer struct {
	Addr    string `bcl:"listen"`
	Name    string
	Workers int
	Ratio   float64
	TLS     bool
}

type Inner struct {
	Name string
	V    int
	W    float64
}

type Outer struct {
	Inner Inner
	Name  string
	Label string
	On    bool
}

type A struct {
	X int
}

var zoo = []reflect.Type{reflect.TypeOf(Tunnel{}), reflect.TypeOf(HTTPServer{}), reflect.TypeOf(Inner{}), reflect.TypeOf(Outer{}), reflect.TypeOf(A{})}

// ---- value generation

var intVals = []int{0, 1, -1, 2, 42, -42, 1 << 31, -(1 << 31), 1<<53 + 1, math.MaxInt64, math.MinInt64, math.MinInt64 + 1, 8400, 65535}
var floatVals = []float64{0, 1, -1, 0.5, 2.5, -2.5, 8.5, 1e6, 1e21, 1e-7, math.MaxFloat64, -math.MaxFloat64, math.SmallestNonzeroFloat64, 2.2250738585072014e-308, 1.0 / 3, 123456789.125, 100}

func fillValue(r *rand.Rand, v reflect.Value) {
	switch v.Kind() {
	case reflect.Int:
		if r.Intn(3) == 0 {
			v.SetInt(int64(r.Intn(2000) - 1000))
		} else {
			v.SetInt(int64(intVals[r.Intn(len(intVals))]))
		}
	case reflect.Float64:
		if r.Intn(3) == 0 {
			v.SetFloat(math.Float64frombits(r.Uint64()&^(0x7ff<<52) | uint64(r.Intn(2046)+1)<<52)) // finite, normal
		} else {
			v.SetFloat(floatVals[r.Intn(len(floatVals))])
		}
	case reflect.String:
		if r.Intn(4) == 0 {
			v.SetString("")
		} else {
			v.SetString(lang.GenStrValue(r))
		}
	case reflect.Bool:
		v.SetBool(r.Intn(2) == 0)
	case reflect.Struct:
		for i := 0; i < v.NumField(); i++ {
			fillValue(r, v.Field(i))
		}
	}
}

func intText(v int64) string {
	if v == math.MinInt64 {
		return "-9223372036854775807-1"
	}
	return strconv.FormatInt(v, 10)
}

func floatText(f float64) string {
	neg := math.Signbit(f)
	s := strconv.FormatFloat(math.Abs(f), 'g', -1, 64)
	if !strings.ContainsAny(s, ".e") {
		s += ".0"
	}
	if neg {
		return "-" + s
	}
	return s
}

func nameFieldIndex(t reflect.Type) int {
	for i := 0; i < t.NumField(); i++ {
		if strings.EqualFold(t.Field(i).Name, "name") && t.Field(i).Type.Kind() == reflect.String {
			return i
		}
	}
	return -1
}

// c05Spell fixes the source spelling of some string values for one case (value -> literal text).
var c05Spell map[string]string

// writeBlock writes the value as BCL text; blockType is the type identifier to use.
func writeBlock(r *rand.Rand, b *strings.Builder, v reflect.Value, blockType string, indent string, keyCount *int) {
	t := v.Type()
	b.WriteString(indent + "def " + blockType)
	ni := nameFieldIndex(t)
	if ni >= 0 {
		if nm := v.Field(ni).String(); nm != "" {
			b.WriteString(" " + lang.SpellStr(r, nm, r.Intn(2) == 0).Text)
		}
	}
	b.WriteString(" {\n")
	order := r.Perm(t.NumField())
	for _, i := range order {
		if i == ni {
			continue
		}
		f := t.Field(i)
		key := f.Tag.Get("bcl")
		if key == "" {
			for {
				key = snakeSpelling(r, f.Name)
				if lang.Keywords[key] {
					key = key + "_"
				}
				clash := false
				for j := 0; j < t.NumField(); j++ {
					if t.Field(j).Tag.Get("bcl") == key {
						clash = true // that spelling is another field's tag, which takes precedence
					}
				}
				if !clash {
					break
				}
			}
		}
		fv := v.Field(i)
		if c05Sparse && fv.Kind() != reflect.Struct && fv.IsZero() {
			continue // sparse text: a field holding its zero value is simply not written
		}
		*keyCount++
		switch fv.Kind() {
		case reflect.Struct:
			childType := key
			if n := f.Type.Name(); n != "" {
				// a named nested type: the child's block type must match both the field and the type name
				childType = snakeSpelling(r, f.Name)
			}
			writeBlock(r, b, fv, childType, indent+"  ", keyCount)
		case reflect.Int:
			x := fv.Int()
			if x < 0 && x != math.MinInt64 && r.Intn(2) == 0 {
				fmt.Fprintf(b, "%s  %s = 0 - %d\n", indent, key, -x)
			} else {
				fmt.Fprintf(b, "%s  %s = %s\n", indent, key, intText(x))
			}
		case reflect.Float64:
			fmt.Fprintf(b, "%s  %s = %s\n", indent, key, floatText(fv.Float()))
		case reflect.String:
			text, fixed := c05Spell[fv.String()]
			if !fixed {
				text = lang.SpellStr(r, fv.String(), r.Intn(2) == 0).Text
			}
			fmt.Fprintf(b, "%s  %s = %s\n", indent, key, text)
		case reflect.Bool:
			fmt.Fprintf(b, "%s  %s = %v\n", indent, key, fv.Bool())
		}
	}
	b.WriteString(indent + "}\n")
}

func blockTypeFor(r *rand.Rand, t reflect.Type) string {
	if n := t.Name(); n != "" {
		s := snakeSpelling(r, n)
		if lang.Keywords[s] {
			return s + "_"
		}
		return s
	}
	return []string{"blk", "server", "t", "some_type", "X"}[r.Intn(5)]
}

func bitsEqual(a, b reflect.Value) string {
	switch a.Kind() {
	case reflect.Float64:
		if math.Float64bits(a.Float()) != math.Float64bits(b.Float()) {
			return fmt.Sprintf("float %v (%016x) vs %v (%016x)", a.Float(), math.Float64bits(a.Float()), b.Float(), math.Float64bits(b.Float()))
		}
	case reflect.Struct:
		for i := 0; i < a.NumField(); i++ {
			if d := bitsEqual(a.Field(i), b.Field(i)); d != "" {
				return a.Type().Field(i).Name + ": " + d
			}
		}
	case reflect.Slice:
		if a.Len() != b.Len() {
			return fmt.Sprintf("length %d vs %d", a.Len(), b.Len())
		}
		for i := 0; i < a.Len(); i++ {
			if d := bitsEqual(a.Index(i), b.Index(i)); d != "" {
				return fmt.Sprintf("[%d]: %s", i, d)
			}
		}
	default:
		if !reflect.DeepEqual(a.Interface(), b.Interface()) {
			return fmt.Sprintf("%#v vs %#v", a.Interface(), b.Interface())
		}
	}
	return ""
}

// chainType nests anonymous structs d levels deep (the block stack holds 16).
func chainType(d int) reflect.Type {
	fs := []reflect.StructField{{Name: "Level", Type: reflect.TypeOf(0)}, {Name: "Name", Type: reflect.TypeOf("")}}
	if d > 1 {
		fs = append(fs, reflect.StructField{Name: "Inner", Type: chainType(d - 1)})
	}
	return reflect.StructOf(fs)
}

// c05Sparse: the text of this case leaves out fields that hold their zero value (slice targets only: their
// elements are fresh), so the blocks of one slice have key sets that are subsets and supersets of each other
var c05Sparse bool

func sparsify(r *rand.Rand, v reflect.Value, nameIdx int) {
	for i := 0; i < v.NumField(); i++ {
		f := v.Field(i)
		switch {
		case i == nameIdx:
		case f.Kind() == reflect.Struct:
			sparsify(r, f, nameFieldIndex(f.Type()))
		case r.Intn(2) == 0:
			f.Set(reflect.Zero(f.Type()))
		}
	}
}

func c05Case(c *core.Ctx, i int64, r *rand.Rand) {
	var t reflect.Type
	if i < 32 {
		t = chainType(1 + int(i)%16)
		c.Count("nesting_chains_to_depth_16", 1)
	} else if k := int(i) - 32; k < 2*len(lang.HashCollisions) {
		// two fields whose names collide under a common 32-bit string hash
		hc := lang.HashCollisions[k/2]
		fa := reflect.StructField{Name: strings.ToUpper(hc.A[:1]) + hc.A[1:], Type: reflect.TypeOf(0)}
		fb := reflect.StructField{Name: strings.ToUpper(hc.B[:1]) + hc.B[1:], Type: reflect.TypeOf("")}
		if k%2 == 1 {
			fa, fb = fb, fa
		}
		t = reflect.StructOf([]reflect.StructField{fa, {Name: "Name", Type: reflect.TypeOf("")}, fb})
		c.Count("struct_types_with_hash_colliding_field_names", 1)
	} else if r.Intn(4) == 0 {
		t = zoo[r.Intn(len(zoo))]
	} else {
		t = (&typeGen{r: r}).structType(1)
	}
	bt := blockTypeFor(r, t)
	nblocks := 1
	sel := []string{"", ":1", ":first", ":last"}[r.Intn(4)]
	slice := r.Intn(3) == 0
	if slice || sel == ":first" || sel == ":last" {
		nblocks = 1 + r.Intn(4)
	}
	if slice {
		sel = []string{":all", ":all", ":first", ":last", ""}[r.Intn(5)]
		if sel == "" || sel == ":1" {
			nblocks = 1
		}
	}
	vals := make([]reflect.Value, nblocks)
	c05Sparse = slice && r.Intn(3) == 0
	defer func() { c05Sparse = false }()
	if c05Sparse {
		c.Count("slice_cases_written_sparsely", 1)
	}
	c05Spell = nil
	var b strings.Builder
	keys := 0
	// other blocks and variables around
	b.WriteString("var unrelated = 1\ndef other_thing { z = 1 }\n")
	for k := range vals {
		vals[k] = reflect.New(t).Elem()
		fillValue(r, vals[k])
		if c05Sparse {
			sparsify(r, vals[k], nameFieldIndex(t))
		}
		if r.Intn(6) == 0 {
			// one string field's value is the source spelling (quotes, backslashes and all) of another one's
			var sf []reflect.Value
			for fi := 0; fi < t.NumField(); fi++ {
				if f := vals[k].Field(fi); f.Kind() == reflect.String && fi != nameFieldIndex(t) {
					sf = append(sf, f)
				}
			}
			if len(sf) >= 2 {
				a, bq := sf[0], sf[1]
				if r.Intn(2) == 0 {
					a, bq = bq, a
				}
				if a.String() == "" {
					a.SetString([]string{"a\tb", "q\"uote", "back\\slash", "é\n"}[r.Intn(4)])
				}
				lit := lang.SpellStr(r, a.String(), true).Text
				if c05Spell == nil {
					c05Spell = map[string]string{}
				}
				if _, dup := c05Spell[a.String()]; !dup && a.String() != lit {
					c05Spell[a.String()] = lit
					bq.SetString(lit)
					c.Count("strings_holding_the_spelling_of_another_literal", 1)
				}
			}
		}
		var one strings.Builder
		writeBlock(r, &one, vals[k], bt, "", &keys)
		if one.Len() == 0 {
			return
		}
		b.WriteString(one.String())
		if r.Intn(3) == 0 {
			b.WriteString("def other_thing \"x" + strconv.Itoa(k) + "\" { }\n")
		}
	}
	target := "struct"
	if slice {
		target = "slice"
	}
	fmt.Fprintf(&b, "bind %s%s -> %s\n", bt, sel, target)
	src := []byte(b.String())
	c.NoteInput("src", src)
	// expected
	var want reflect.Value
	pick := func() reflect.Value {
		if sel == ":last" {
			return vals[len(vals)-1]
		}
		return vals[0]
	}
	var ptr reflect.Value
	if slice {
		st := reflect.SliceOf(t)
		want = reflect.MakeSlice(st, 0, nblocks)
		if sel == ":all" {
			for _, v := range vals {
				want = reflect.Append(want, v)
			}
		} else {
			want = reflect.Append(want, pick())
		}
		ptr = reflect.New(st)
		// pre-filled with junk that must be discarded
		junk := reflect.MakeSlice(st, 0, 0)
		for k, n := 0, r.Intn(6); k < n; k++ {
			jv := reflect.New(t).Elem()
			fillValue(r, jv)
			junk = reflect.Append(junk, jv)
		}
		ptr.Elem().Set(junk)
	} else {
		want = pick()
		ptr = reflect.New(t)
		if r.Intn(2) == 0 {
			fillValue(r, ptr.Elem()) // old contents are overwritten field by field
		}
	}
	var out, lg bytes.Buffer
	var err error
	in := append([]byte{}, src...)
	if h := core.Hash(in); h%16 == 7 {
		EarlierCall(h >> 4) // a library call of another kind first (see common.go)
		c.Count("unmarshals_after_an_earlier_call_of_another_kind", 1)
	}
	pan, stack := protect(func() { err = bcl.Unmarshal(in, ptr.Interface(), bcl.OptOutput(&out), bcl.OptLogger(&lg)) })
	for k := range in {
		in[k] = '#' // the caller reuses its buffer: the target must not refer to it
	}
	c.Eval(1)
	det := func() map[string]any {
		return map[string]any{"source": core.Trunc(string(src), 3000), "go_type": core.Trunc(t.String(), 1500), "binding": sel + "->" + target, "log": lg.String()}
	}
	if pan != "" {
		c.Violation(panicSig(pan, stack), "Unmarshal panicked: "+pan, det())
		return
	}
	if err != nil {
		c.Violation("unmarshal-error", "Unmarshal of text written from a value of the target's own type failed: "+err.Error(), det())
		return
	}
	if d := bitsEqual(want, ptr.Elem()); d != "" {
		c.Violation("roundtrip-value", "the unmarshalled value differs from the written one: "+core.Trunc(d, 400), det())
		return
	}
	c.Count("fields_crossed_the_reflection_layer", int64(keys))
	if slice {
		c.Count("slice_bindings", 1)
	} else {
		c.Count("struct_bindings", 1)
	}
	if t.Name() != "" {
		c.Count("named_struct_types", 1)
	} else {
		c.Count("generated_struct_types", 1)
	}
	if keys > 0 {
		c.Nontrivial(core.Hash(src, t.String()))
	}
	if c.WantSample() && len(src) < 500 {
		c.Sample(map[string]any{"go_type": t.String(), "bcl": string(src)})
	}
}

func init() {
	core.Register(&core.Check{
		ID:    "C05",
		Level: "exploration",
		Rule: "round-trip monitor: the harness owns the writer (Go value -> BCL text) and the matching rule (tag first, else equal ignoring case and underscores; type name matched the same way). Struct types are built with reflect.StructOf (1-12 fields of int/float64/string/bool, nested anonymous structs to depth 4, tags on a random subset, a Name field at any index or absent) or taken from a zoo of named types (named nested type included); " +
			"values: zero, extremes (MinInt64, +-MaxFloat64, denormals, -0.0), random finite floats, strings needing every escape form; key spellings: snake, joined, upper, Go name, extra/leading/trailing underscores, lower camel; field order shuffled; struct binding with every selector and slice binding (all/first/last) into a slice pre-filled with junk. Required: nil error and bit-exact deep equality. " +
			"distinct = hash(text, type); non-trivial = at least one field crossed the reflection layer Also: struct chains nested 1..16 deep; struct types holding two field names that collide under a common 32-bit string hash (FNV, CRC32, Adler, djb2, sdbm, 31/131 multiplicative, Jenkins, Murmur3, byte sum/xor: internal/lang/collide_table.go); tags equal to a sibling field's Go name (the tag wins); string values equal to the source spelling of another string literal of the same program; U+FFFD, U+FEFF and U+2028 written raw inside literals; field names built from words that are keywords of the language (bind_addr, not_before, or_else, var_set ...); struct types of 31..130 fields; the source buffer is overwritten right after Unmarshal returns. A third of the slice cases are written sparsely: fields holding their zero value are left out, so neighbouring blocks have key sets that are sub- and supersets of each other.",
		Assumptions:   []string{"field-name sets that are ambiguous under the rule (two fields equal after folding, a tag equal to another field's folded name) are not generated"},
		MinNontrivial: 1000,
		Run: func(c *core.Ctx) {
			n := int64(c.Pick(300000, 4000000))
			for i := int64(0); i < n; i++ {
				if !c.Mine(i) {
					continue
				}
				c.Begin(i)
				c05Case(c, i, c.Rand(i))
			}
		},
	})
}
