// bclverif is the driver of the runtime-monitoring checks for wkhere/bcl.
//
//	bclverif check <id> --tier quick|thorough     parent: run all shards, merge, verdict
//	bclverif worker <id> ...                      one shard (child process)
//	bclverif replay <file>                        re-run the case of a replay file alone
//	bclverif list
package main

import (
	"encoding/json"
	"flag"
	"fmt"
	"os"
	"path/filepath"
	"strconv"
	"strings"

	"verif/checks"
	"verif/internal/core"
)

func seedFromEnv() int64 {
	if s := os.Getenv("VERIF_SEED"); s != "" {
		if n, err := strconv.ParseInt(s, 10, 64); err == nil {
			return n
		}
	}
	return 1
}

func main() {
	if len(os.Args) < 2 {
		fmt.Fprintln(os.Stderr, "usage: bclverif check|worker|replay|list ...")
		os.Exit(3)
	}
	switch os.Args[1] {
	case "mkcorpus":
		dir := core.Root + "/corpus"
		if len(os.Args) > 2 {
			dir = os.Args[2]
		}
		if err := checks.MakeCorpus(dir); err != nil {
			fmt.Fprintln(os.Stderr, err)
			os.Exit(1)
		}
		fmt.Println("corpus written to", dir)
	case "corpuscheck":
		dir := core.Root + "/corpus"
		if len(os.Args) > 2 {
			dir = os.Args[2]
		}
		if _, d := checks.CorpusCrossCheck(dir); d > 0 {
			os.Exit(1)
		}
	case "c16digest":
		var seed int64
		fmt.Sscan(os.Args[2], &seed)
		checks.C16Digests(seed, os.Args[3])
	case "list":
		for _, id := range core.IDs() {
			fmt.Println(id)
		}
	case "check":
		fs := flag.NewFlagSet("check", flag.ExitOnError)
		tier := fs.String("tier", "quick", "")
		seed := fs.Int64("seed", seedFromEnv(), "")
		race := fs.String("race-exe", "", "")
		if len(os.Args) < 3 {
			os.Exit(3)
		}
		fs.Parse(os.Args[3:])
		exe, _ := os.Executable()
		rexe := *race
		if rexe == "" {
			rexe = filepath.Join(filepath.Dir(exe), "bclverif-race")
		}
		os.Exit(core.RunParent(os.Args[2], *tier, *seed, exe, rexe))
	case "worker":
		fs := flag.NewFlagSet("worker", flag.ExitOnError)
		tier := fs.String("tier", "quick", "")
		seed := fs.Int64("seed", 1, "")
		shard := fs.String("shard", "0/1", "")
		only := fs.Int64("only", -1, "")
		from := fs.Int64("from", 0, "")
		dir := fs.String("dir", "", "")
		fs.Parse(os.Args[3:])
		var s, n int
		fmt.Sscanf(*shard, "%d/%d", &s, &n)
		if n == 0 {
			n = 1
		}
		if *dir == "" {
			*dir = filepath.Join(core.Root, ".work", "run", "adhoc")
		}
		if err := core.RunWorker(os.Args[2], *tier, *seed, s, n, *only, *from, *dir); err != nil {
			fmt.Fprintln(os.Stderr, err)
			os.Exit(3)
		}
	case "replay":
		if len(os.Args) < 3 {
			os.Exit(3)
		}
		data, err := os.ReadFile(os.Args[2])
		if err != nil {
			fmt.Fprintln(os.Stderr, err)
			os.Exit(3)
		}
		var rec struct {
			Property string `json:"property"`
			Tier     string `json:"tier"`
			Seed     int64  `json:"seed"`
			Case     int64  `json:"case"`
		}
		if err := json.Unmarshal(data, &rec); err != nil {
			fmt.Fprintln(os.Stderr, err)
			os.Exit(3)
		}
		dir := filepath.Join(core.Root, ".work", "run", "replay-"+strings.ToLower(rec.Property))
		os.RemoveAll(dir)
		if err := core.RunWorker(rec.Property, rec.Tier, rec.Seed, 0, 1, rec.Case, 0, dir); err != nil {
			fmt.Fprintln(os.Stderr, err)
			os.Exit(3)
		}
		res, _ := os.ReadFile(filepath.Join(dir, fmt.Sprintf("result-only%d.json", rec.Case)))
		var r core.Result
		json.Unmarshal(res, &r)
		if len(r.Violations) > 0 {
			fmt.Printf("VIOLATION property=%s replay=%s\n", rec.Property, os.Args[2])
			os.Exit(1)
		}
		fmt.Println("case ran without a violation")
	default:
		fmt.Fprintln(os.Stderr, "unknown command")
		os.Exit(3)
	}
}
